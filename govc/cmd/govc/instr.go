package main

import (
	"sort"
	"fmt"
	"go/token"
	"go/types"
	"strings"

	"golang.org/x/tools/go/ssa"
)

// instr translates one instruction. stop=true ends the block (return / panic).
func (fr *Frame) instr(in ssa.Instruction, st *State, reach string) (stop bool, err error) {
	g := fr.g
	defer func() {
		if r := recover(); r != nil {
			if ee, ok := r.(evalErr); ok {
				// unsupported construct: havoc the result and everything it may have written
				g.note("%s: %s not modelled (%s): result and heap havocked", fr.fn, instrDesc(in), ee.msg)
				if v, ok := in.(ssa.Value); ok {
					hv := fr.havocVal(v.Type(), "unsup."+v.Name(), st)
					hv.Bad = ee.msg
					fr.vals[v] = hv
				}
				if _, isStore := in.(*ssa.Store); isStore {
					g.havocAll(st)
				}
				if _, isCall := in.(ssa.CallInstruction); isCall {
					g.havocAll(st)
				}
				if _, isMU := in.(*ssa.MapUpdate); isMU {
					g.havocAll(st)
				}
				stop, err = false, nil
				return
			}
			panic(r)
		}
	}()
	switch x := in.(type) {
	case *ssa.DebugRef:
		return false, nil
	case *ssa.Alloc:
		fr.vals[x] = fr.alloc(x, st)
	case *ssa.FieldAddr:
		base := fr.val(x.X)
		fr.nilCheck(base, reach, x.Pos(), "field "+fieldName(x.X.Type(), x.Field))
		fr.vals[x] = g.fieldLoc(base, x.Field)
	case *ssa.Field:
		base := fr.val(x.X)
		fr.vals[x] = g.fieldOf(st, base, x.Field)
	case *ssa.IndexAddr:
		fr.vals[x] = fr.indexAddr(x, st, reach)
	case *ssa.Index:
		base := fr.val(x.X)
		idx := fr.val(x.Index)
		switch u := x.X.Type().Underlying().(type) {
		case *types.Array:
			fr.boundsCheck(idx.T, fmt.Sprint(u.Len()), reach, x.Pos(), "index")
			fr.vals[x] = g.goVal(app("select", base.T, idx.T), u.Elem())
		default: // string
			fr.boundsCheck(idx.T, app("strlen", base.T), reach, x.Pos(), "string index")
			v := g.goVal(app(g.declareUF("strat", []string{SInt, SInt}, SInt), base.T, idx.T), types.Typ[types.Uint8])
			g.typeFacts(v, st)
			fr.vals[x] = v
		}
	case *ssa.UnOp:
		fr.vals[x] = fr.unop(x, st, reach)
	case *ssa.BinOp:
		fr.vals[x] = fr.binop(x, st, reach)
	case *ssa.Store:
		addr := fr.val(x.Addr)
		v := fr.val(x.Val)
		el := x.Addr.Type().Underlying().(*types.Pointer).Elem()
		fr.nilCheck(addr, reach, x.Pos(), "store")
		if v.Loc != nil {
			g.note("%s: the address of %s is stored to memory (escapes)", fr.fn, v.Loc.Heap)
			fr.escape(v, st)
			if v.T == "" {
				v = fr.havocVal(x.Val.Type(), "escaped", st)
			}
		}
		fr.ghostAnchorsPre("store "+storeDesc(x), st, reach, in)
		g.storePtr(st, addr, el, v)
		fr.ghostAnchors("store "+storeDesc(x), st, reach, in, Val{})
	case *ssa.Phi:
		// handled at block entry
	case *ssa.Call:
		fr.ghostAnchorsBefore(x, st, reach)
		r := fr.call(x, x.Common(), st, reach)
		fr.vals[x] = r
		fr.ghostAnchorsAfter(x, st, reach, r)
	case *ssa.ChangeType:
		v := fr.val(x.X)
		v.Go = x.Type()
		fr.vals[x] = v
	case *ssa.ChangeInterface:
		v := fr.val(x.X)
		v.Go = x.Type()
		fr.vals[x] = v
	case *ssa.Convert:
		fr.vals[x] = fr.convert(x, st)
	case *ssa.MakeInterface:
		fr.vals[x] = fr.makeInterface(x, st)
	case *ssa.TypeAssert:
		fr.vals[x] = fr.typeAssert(x, st, reach)
	case *ssa.Extract:
		t := fr.val(x.Tuple)
		if x.Index >= len(t.Tup) {
			efail("extract from non-tuple")
		}
		fr.vals[x] = t.Tup[x.Index]
	case *ssa.MakeSlice:
		ln := fr.val(x.Len)
		cp := fr.val(x.Cap)
		el := x.Type().Underlying().(*types.Slice).Elem()
		ref := fr.newRef(st)
		h := g.elemsHeap(el)
		g.heapSet(st, h, app("store", g.heapGet(st, h), ref, g.sorts.ZeroOf(types.NewArray(el, 0))))
		if fr.panics {
			g.oblige("panic", fr.oname("panic", "makeslice@"+fr.posTag(x.Pos())), "panic", fr.props, reach, sAnd(app("<=", "0", ln.T), app("<=", ln.T, cp.T)), "make: len out of range", x.Pos())
		} else {
			g.assume(sImp(reach, sAnd(app("<=", "0", ln.T), app("<=", ln.T, cp.T))))
		}
		ms := mkSlice(ref, "0", ln.T, cp.T)
		ms.Go = x.Type()
		fr.vals[x] = ms
	case *ssa.MakeMap:
		ref := fr.newRef(st)
		mt := x.Type().Underlying().(*types.Map)
		dom, _, ln := g.mapHeaps(mt)
		ks := g.sorts.SortOf(mt.Key())
		g.heapSet(st, dom, app("store", g.heapGet(st, dom), ref, fmt.Sprintf("((as const %s) false)", arrSort(ks, SBool))))
		g.heapSet(st, ln, app("store", g.heapGet(st, ln), ref, "0"))
		fr.vals[x] = Val{T: ref, Go: x.Type(), Sort: SInt}
	case *ssa.MakeChan:
		fr.vals[x] = Val{T: fr.newRef(st), Go: x.Type(), Sort: SInt}
	case *ssa.MakeClosure:
		fn := x.Fn.(*ssa.Function)
		v := Val{T: g.funcID(fn), Fn: fn, Go: x.Type(), Sort: SInt}
		for _, b := range x.Bindings {
			v.Bind = append(v.Bind, fr.val(b))
		}
		fr.vals[x] = v
	case *ssa.Slice:
		fr.vals[x] = fr.sliceOp(x, st, reach)
	case *ssa.Lookup:
		fr.vals[x] = fr.lookupOp(x, st, reach)
	case *ssa.MapUpdate:
		fr.ghostAnchorsPre("mapupdate", st, reach, in)
		fr.mapUpdate(x, st, reach)
		fr.ghostAnchors("mapupdate", st, reach, in, Val{})
	case *ssa.Range:
		m := fr.val(x.X)
		m.Go = x.X.Type()
		rv := Val{T: m.T, Go: x.X.Type(), Sort: SInt, Tup: []Val{m}}
		if mt, ok := x.X.Type().Underlying().(*types.Map); ok {
			// ghost set of the keys already yielded by this iteration (named `visited` in the loop's invariants)
			g.nLocal++
			ks := g.sorts.SortOf(mt.Key())
			h := g.regHeap(fmt.Sprintf("Local:%s.visited#%d", fr.fn.Name(), g.nLocal), arrSort(ks, SBool))
			st.h[h] = fmt.Sprintf("((as const %s) false)", arrSort(ks, SBool))
			rv.Loc = &Loc{Heap: h}
			fr.rangeVisited = append(fr.rangeVisited, rangeVis{x, h})
		}
		fr.vals[x] = rv
	case *ssa.Next:
		fr.vals[x] = fr.nextOp(x, st)
	case *ssa.Select:
		g.note("%s: select statement: received values havocked", fr.fn)
		fr.vals[x] = fr.havocVal(x.Type(), "select", st)
	case *ssa.Send:
		// no modelled effect
	case *ssa.Go:
		g.note("%s: go statement ignored (concurrency not modelled)", fr.fn)
	case *ssa.Defer:
		callee := calleeName(x.Common())
		if !g.effectFree(callee) {
			if fr.fc != nil && fr.fc.Opts["model-defers"] != "" && fr.depth == 0 {
				// opt model-defers: the deferred call is executed at RunDefers, under the condition that this defer
				// statement was reached on the path (LIFO); defers inside loops are not supported (heap havocked at exit)
				fr.defers = append(fr.defers, deferRec{in: x, cond: reach, inLoop: fr.inLoop(x.Block())})
			} else {
				g.note("%s: defer %s is not modelled (effects at function exit ignored)", fr.fn, callee)
				fr.deferred = append(fr.deferred, callee)
			}
		}
	case *ssa.RunDefers:
		for i := len(fr.defers) - 1; i >= 0; i-- {
			d := fr.defers[i]
			if d.inLoop {
				g.note("%s: defer inside a loop: heap havocked at function exit", fr.fn)
				g.havocAll(st)
				continue
			}
			work := st.clone()
			fr.call(d.in, d.in.Common(), work, g.define("defer.run", SBool, sAnd(reach, d.cond)))
			merged := fr.mergeStates([]string{d.cond, sNot(d.cond)}, []*State{work, st.clone()})
			st.h, st.epoch, st.preds, st.conds = merged.h, merged.epoch, merged.preds, merged.conds
		}
	case *ssa.Return:
		var rs []Val
		for _, r := range x.Results {
			rs = append(rs, fr.val(r))
		}
		fr.ghostAnchors("return", st, reach, in, Val{})
		fr.rets = append(fr.rets, retPoint{reach: reach, results: rs, st: st.clone()})
		return true, nil
	case *ssa.Panic:
		if fr.panics {
			g.oblige("panic", fr.oname("panic", "explicit@"+fr.posTag(x.Pos())), "panic", fr.props, reach, "false", "explicit panic reachable", x.Pos())
		}
		return true, nil
	case *ssa.If, *ssa.Jump:
		// edges handled by the caller
	case *ssa.SliceToArrayPointer, *ssa.MultiConvert:
		efail("unsupported instruction")
	default:
		efail("unsupported instruction %T", in)
	}
	return false, nil
}

func instrDesc(in ssa.Instruction) string {
	s := in.String()
	if len(s) > 80 {
		s = s[:80] + "…"
	}
	return fmt.Sprintf("%T %s", in, s)
}

func fieldName(pt types.Type, idx int) string {
	if p, ok := pt.Underlying().(*types.Pointer); ok {
		if su, ok := p.Elem().Underlying().(*types.Struct); ok {
			return su.Field(idx).Name()
		}
	}
	return fmt.Sprint(idx)
}

func storeDesc(x *ssa.Store) string {
	if fa, ok := x.Addr.(*ssa.FieldAddr); ok {
		return fieldName(fa.X.Type(), fa.Field)
	}
	return "*"
}

func (fr *Frame) posTag(p token.Pos) string {
	// position-independent tag: ordinal of this kind of obligation within the function
	fr.anchorOrd["panic"]++
	return fmt.Sprint(fr.anchorOrd["panic"])
}

func (fr *Frame) newRef(st *State) string {
	g := fr.g
	a := g.heapGet(st, g.allocHeap())
	ref := g.define("new", SInt, a)
	st.h["Alloc"] = g.define("Alloc", SInt, app("+", a, "1"))
	return ref
}

func (fr *Frame) alloc(x *ssa.Alloc, st *State) Val {
	g := fr.g
	el := x.Type().Underlying().(*types.Pointer).Elem()
	ref := fr.newRef(st)
	v := Val{T: ref, Go: x.Type(), Sort: SInt}
	if isBigInt(el) {
		h := g.bigHeap()
		g.heapSet(st, h, app("store", g.heapGet(st, h), ref, "0"))
		return v
	}
	switch u := el.Underlying().(type) {
	case *types.Struct:
		zero := Val{T: g.sorts.ZeroOf(el), Go: el, Sort: g.sorts.SortOf(el)}
		g.storePtr(st, v, el, zero)
		_ = u
	case *types.Array:
		h := g.elemsHeap(u.Elem())
		g.heapSet(st, h, app("store", g.heapGet(st, h), ref, g.sorts.ZeroOf(el)))
	default:
		if !fr.inLoop(x.Block()) {
			// an address-taken local variable outside any loop: its own heap variable, not reachable by callees
			// unless its address escapes
			g.nLocal++
			name := x.Comment
			if name == "" {
				name = x.Name()
			}
			h := g.regHeap(fmt.Sprintf("Local:%s.%s#%d", fr.fn.Name(), name, g.nLocal), g.sorts.SortOf(el))
			l := &Loc{Heap: h, T: el}
			g.storeLoc(st, l, g.sorts.ZeroOf(el))
			v.Loc = l
			return v
		}
		l := &Loc{Heap: g.cellHeap(el), Idx: []string{ref}, T: el}
		g.storeLoc(st, l, g.sorts.ZeroOf(el))
		v.Loc = l
	}
	return v
}

func (fr *Frame) inLoop(b *ssa.BasicBlock) bool {
	for _, li := range fr.loops {
		if li.body[b.Index] {
			return true
		}
	}
	return false
}

func (fr *Frame) nilCheck(p Val, reach string, pos token.Pos, what string) {
	g := fr.g
	if p.Loc != nil && p.NilIf != "" {
		c := sNot(p.NilIf)
		if fr.panics {
			g.oblige("panic", fr.oname("panic", "nil-"+what+"@"+fr.posTag(pos)), "panic", fr.props, reach, c, "nil dereference: "+what, pos)
		} else {
			g.assume(sImp(reach, c))
		}
		return
	}
	if p.T == "" || p.Loc != nil {
		return
	}
	c := sNot(app("=", p.T, "0"))
	if fr.panics {
		g.oblige("panic", fr.oname("panic", "nil-"+what+"@"+fr.posTag(pos)), "panic", fr.props, reach, c, "nil dereference: "+what, pos)
	} else {
		g.assume(sImp(reach, c))
	}
}

func (fr *Frame) boundsCheck(i, n string, reach string, pos token.Pos, what string) {
	g := fr.g
	c := sAnd(app("<=", "0", i), app("<", i, n))
	if fr.panics {
		g.oblige("panic", fr.oname("panic", what+"@"+fr.posTag(pos)), "panic", fr.props, reach, c, what+" out of range", pos)
	} else {
		g.assume(sImp(reach, c))
	}
}

// escape: a symbolic address leaves the analysis (passed to an unknown callee or stored); whoever holds it may write.
func (fr *Frame) escape(v Val, st *State) {
	g := fr.g
	if v.Loc == nil {
		return
	}
	if strings.HasPrefix(v.Loc.Heap, "Local:") {
		g.escaped[v.Loc.Heap] = true
	}
	if len(v.Loc.Idx) == 0 {
		st.h[v.Loc.Heap] = g.fresh("esc."+v.Loc.Heap, g.heapSort(v.Loc.Heap))
		return
	}
	// havoc only the addressed root cell
	fv := g.fresh("esc", rootElemSort(g.heapSort(v.Loc.Heap), len(v.Loc.Idx)))
	l := &Loc{Heap: v.Loc.Heap, Idx: v.Loc.Idx}
	g.storeLoc(st, l, fv)
}

func rootElemSort(heapSort string, n int) string {
	s := heapSort
	for i := 0; i < n; i++ {
		_, s = splitArraySort(s)
	}
	return s
}

func (fr *Frame) indexAddr(x *ssa.IndexAddr, st *State, reach string) Val {
	g := fr.g
	base := fr.val(x.X)
	idx := fr.val(x.Index)
	switch u := x.X.Type().Underlying().(type) {
	case *types.Slice:
		fr.boundsCheck(idx.T, app("sl.len", base.T), reach, x.Pos(), "index")
		l := &Loc{Heap: g.elemsHeap(u.Elem()), Idx: []string{app("sl.base", base.T), app("+", app("sl.off", base.T), idx.T)}, T: u.Elem()}
		return Val{Loc: l, Go: x.Type(), Sort: SInt}
	case *types.Pointer:
		at := u.Elem().Underlying().(*types.Array)
		fr.boundsCheck(idx.T, fmt.Sprint(at.Len()), reach, x.Pos(), "index")
		if base.Loc != nil && base.T == "" {
			nl := &Loc{Heap: base.Loc.Heap, Idx: base.Loc.Idx, T: at.Elem()}
			nl.Path = append(append([]PathEl{}, base.Loc.Path...), PathEl{Index: idx.T})
			return Val{Loc: nl, Go: x.Type(), Sort: SInt}
		}
		fr.nilCheck(base, reach, x.Pos(), "array")
		l := &Loc{Heap: g.elemsHeap(at.Elem()), Idx: []string{base.T, idx.T}, T: at.Elem()}
		return Val{Loc: l, Go: x.Type(), Sort: SInt}
	}
	efail("IndexAddr on %s", typeStr(x.X.Type()))
	return Val{}
}

func (fr *Frame) unop(x *ssa.UnOp, st *State, reach string) Val {
	g := fr.g
	v := fr.val(x.X)
	switch x.Op {
	case token.MUL: // load
		el := x.X.Type().Underlying().(*types.Pointer).Elem()
		fr.nilCheck(v, reach, x.Pos(), "load")
		if isBigInt(el) {
			efail("copy of big.Int value")
		}
		if v.Bad != "" && v.Loc == nil {
			return fr.havocVal(el, "load-bad", st)
		}
		return g.loadPtr(st, v, el)
	case token.NOT:
		return Val{T: sNot(v.T), Go: x.Type(), Sort: SBool}
	case token.SUB:
		if g.sorts.SortOf(x.Type()) == SFloat {
			return Val{T: app(g.declareUF("fneg", []string{SFloat}, SFloat), v.T), Go: x.Type(), Sort: SFloat}
		}
		return g.goVal(wrapTo(app("-", v.T), x.Type()), x.Type())
	case token.XOR:
		bits, signed := intBits(x.Type())
		if signed {
			return g.goVal(app("-", app("-", v.T), "1"), x.Type())
		}
		return g.goVal(app("-", fmt.Sprintf("%s", new(bigInt).Sub(pow2(bits), bigOne).String()), v.T), x.Type())
	case token.ARROW:
		g.note("%s: channel receive: value havocked", fr.fn)
		return fr.havocVal(x.Type(), "recv", st)
	}
	efail("unop %s", x.Op)
	return Val{}
}

func (fr *Frame) binop(x *ssa.BinOp, st *State, reach string) Val {
	g := fr.g
	a := fr.val(x.X)
	b := fr.val(x.Y)
	rt := x.Type()
	xt := x.X.Type()
	srt := g.sorts.SortOf(xt)
	isCmp := false
	switch x.Op {
	case token.EQL, token.NEQ, token.LSS, token.LEQ, token.GTR, token.GEQ:
		isCmp = true
	}
	if srt == SFloat {
		op := map[token.Token]string{token.ADD: "fadd", token.SUB: "fsub", token.MUL: "fmul", token.QUO: "fdiv", token.LSS: "flt", token.LEQ: "fle", token.GTR: "fgt", token.GEQ: "fge", token.EQL: "feq", token.NEQ: "fne"}[x.Op]
		if op == "" {
			efail("float op %s", x.Op)
		}
		if isCmp {
			if x.Op == token.NEQ {
				return Val{T: sNot(app(g.declareUF("feq", []string{SFloat, SFloat}, SBool), a.T, b.T)), Go: rt, Sort: SBool}
			}
			return Val{T: app(g.declareUF(op, []string{SFloat, SFloat}, SBool), a.T, b.T), Go: rt, Sort: SBool}
		}
		return Val{T: app(g.declareUF(op, []string{SFloat, SFloat}, SFloat), a.T, b.T), Go: rt, Sort: SFloat}
	}
	if isCmp {
		switch x.Op {
		case token.EQL, token.NEQ:
			if (a.Loc != nil && a.T == "") || (b.Loc != nil && b.T == "") {
				// comparison of symbolic addresses (e.g. &x.f == nil): an address of a field is never nil
				other := b
				if a.T != "" {
					other = a
				}
				if other.T == "0" {
					addr := a
					if a.T != "" {
						addr = b
					}
					isNil := "false"
					if addr.NilIf != "" {
						isNil = addr.NilIf
					}
					if x.Op == token.EQL {
						return Val{T: isNil, Go: rt, Sort: SBool}
					}
					return Val{T: sNot(isNil), Go: rt, Sort: SBool}
				}
				return fr.havocVal(rt, "addrcmp", st)
			}
			var t string
			if srt == SSlice {
				// only comparison with nil is legal
				t = app("=", app("sl.base", a.T), "0")
				if a.T == "nilslice" {
					t = app("=", app("sl.base", b.T), "0")
				}
			} else if isString(xt) {
				t = g.strEq(a.T, b.T)
			} else {
				t = sEq(a.T, b.T)
			}
			if x.Op == token.NEQ {
				t = sNot(t)
			}
			return Val{T: t, Go: rt, Sort: SBool}
		default:
			if isString(xt) {
				return fr.havocVal(rt, "strcmp", st)
			}
			op := map[token.Token]string{token.LSS: "<", token.LEQ: "<=", token.GTR: ">", token.GEQ: ">="}[x.Op]
			return Val{T: app(op, a.T, b.T), Go: rt, Sort: SBool}
		}
	}
	if isString(rt) {
		if x.Op == token.ADD {
			uf := g.declareUF("strcat", []string{SInt, SInt}, SInt)
			t := app(uf, a.T, b.T)
			g.assume(app("=", app("strlen", t), app("+", app("strlen", a.T), app("strlen", b.T))))
			return Val{T: t, Go: rt, Sort: SInt}
		}
		efail("string op %s", x.Op)
	}
	if srt == SBool {
		switch x.Op {
		case token.AND, token.LAND:
			return Val{T: sAnd(a.T, b.T), Go: rt, Sort: SBool}
		case token.OR, token.LOR:
			return Val{T: sOr(a.T, b.T), Go: rt, Sort: SBool}
		case token.XOR:
			return Val{T: app("xor", a.T, b.T), Go: rt, Sort: SBool}
		}
	}
	bits, signed := intBits(rt)
	if bits == 0 {
		efail("binop %s on %s", x.Op, typeStr(rt))
	}
	var t string
	switch x.Op {
	case token.ADD:
		t = fr.arith(x, "+", a.T, b.T, rt, reach)
	case token.SUB:
		t = fr.arith(x, "-", a.T, b.T, rt, reach)
	case token.MUL:
		t = fr.arith(x, "*", a.T, b.T, rt, reach)
	case token.QUO:
		fr.divCheck(b.T, reach, x.Pos())
		if signed {
			t = wrapTo(app("tdiv", a.T, b.T), rt)
		} else {
			t = app("div", a.T, b.T)
		}
	case token.REM:
		fr.divCheck(b.T, reach, x.Pos())
		if signed {
			t = app("tmod", a.T, b.T)
		} else {
			t = app("mod", a.T, b.T)
		}
	case token.SHL:
		if c, ok := smallConst(b.T); ok {
			if c >= bits {
				t = "0"
			} else if a.UB > 0 && a.UB+c <= bits && !signed {
				// no wrap possible: exact product, and remember the bit layout for a later OR
				r := g.goVal(app("*", a.T, pow2s(c)), rt)
				r.LZ, r.UB = a.LZ+c, a.UB+c
				return r
			} else {
				t = wrapTo(app("*", a.T, pow2s(c)), rt)
			}
		} else {
			t = wrapTo(app("*", a.T, app("pow2", b.T)), rt)
			g.assume(pow2Facts(b.T))
		}
	case token.SHR:
		if c, ok := smallConst(b.T); ok {
			if c >= bits && !signed {
				t = "0"
			} else {
				t = app("div", a.T, pow2s(c))
			}
		} else {
			t = app("div", a.T, app("pow2", b.T))
			g.assume(pow2Facts(b.T))
		}
	case token.AND:
		if c, ok := maskConst(b.T); ok && !signed {
			t = app("mod", a.T, pow2s(c))
		} else if c, ok := maskConst(a.T); ok && !signed {
			t = app("mod", b.T, pow2s(c))
		} else {
			t = app("band", a.T, b.T)
			g.assume(sImp(sAnd(app(">=", a.T, "0"), app(">=", b.T, "0")), sAnd(app("<=", "0", t), app("<=", t, a.T), app("<=", t, b.T))))
			g.assume(inRange(t, rt))
		}
	case token.OR:
		if a.UB > 0 && b.UB > 0 && (a.LZ >= b.UB || b.LZ >= a.UB) {
			// disjoint bit ranges: OR is addition
			r := g.goVal(app("+", a.T, b.T), rt)
			r.UB = a.UB
			if b.UB > r.UB {
				r.UB = b.UB
			}
			r.LZ = a.LZ
			if b.LZ < r.LZ {
				r.LZ = b.LZ
			}
			return r
		}
		t = app("bor", a.T, b.T)
		g.assume(sImp(sAnd(app(">=", a.T, "0"), app(">=", b.T, "0")), sAnd(app(">=", t, a.T), app(">=", t, b.T), app("<=", t, app("+", a.T, b.T)))))
		g.assume(inRange(t, rt))
	case token.XOR:
		t = app("bxor", a.T, b.T)
		g.assume(inRange(t, rt))
	case token.AND_NOT:
		t = app(g.declareUF("bandnot", []string{SInt, SInt}, SInt), a.T, b.T)
		g.assume(inRange(t, rt))
	default:
		efail("binop %s", x.Op)
	}
	return g.goVal(t, rt)
}

func pow2Facts(s string) string {
	// pow2(s) for 0 <= s < 64 is positive; exact values for the common small shifts
	return sAnd(app(">", app("pow2", s), "0"),
		sImp(app("=", s, "0"), app("=", app("pow2", s), "1")),
		sImp(app("=", s, "8"), app("=", app("pow2", s), "256")))
}

func isString(t types.Type) bool {
	b, ok := t.Underlying().(*types.Basic)
	return ok && b.Info()&types.IsString != 0
}

func (g *Gen) strEq(a, b string) string { return sEq(a, b) }

func smallConst(t string) (int, bool) {
	var n int
	if _, err := fmt.Sscanf(t, "%d", &n); err == nil && fmt.Sprint(n) == t && n >= 0 && n < 4096 {
		return n, true
	}
	return 0, false
}

// maskConst: t == 2^c - 1 ?
func maskConst(t string) (int, bool) {
	n, ok := new(bigInt).SetString(t, 10)
	if !ok || n.Sign() <= 0 {
		return 0, false
	}
	m := new(bigInt).Add(n, bigOne)
	if m.BitLen() > 0 && new(bigInt).Lsh(bigOne, uint(m.BitLen()-1)).Cmp(m) == 0 {
		return m.BitLen() - 1, true
	}
	return 0, false
}

// arith: wrapped machine arithmetic; with `overflow checked` an obligation that no wrap occurs.
func (fr *Frame) arith(x *ssa.BinOp, op, a, b string, rt types.Type, reach string) string {
	g := fr.g
	raw := app(op, a, b)
	if fr.fc != nil && fr.fc.Overflow == "checked" && fr.depth == 0 {
		g.oblige("overflow", fr.oname("overflow", op+"@"+fr.posTag(x.Pos())), "overflow", fr.props, reach, inRange(raw, rt), "arithmetic overflow", x.Pos())
		return raw
	}
	bits, signed := intBits(rt)
	m := pow2s(bits)
	if !signed {
		switch op {
		case "+":
			r := g.define("sum", SInt, raw)
			return sIte(app("<", r, m), r, app("-", r, m))
		case "-":
			r := g.define("diff", SInt, raw)
			return sIte(app(">=", r, "0"), r, app("+", r, m))
		}
	} else if op == "+" || op == "-" {
		// the hidden index of a slice/array/string range loop: phi ∈ [-1, len-1] and len ≤ MaxInt, so phi+1 never wraps
		if phi, ok := x.X.(*ssa.Phi); ok && phi.Comment == "rangeindex" && op == "+" && b == "1" {
			return raw
		}
		// one signed addition/subtraction of two in-range values leaves the range by less than 2^bits: a case split
		// instead of `mod` (same value, far easier for the solvers and usable next to triggers)
		h := pow2s(bits - 1)
		r := g.define("ssum", SInt, raw)
		return sIte(app(">=", r, h), app("-", r, m), sIte(app("<", r, app("-", h)), app("+", r, m), r))
	}
	return wrapTo(raw, rt)
}

func (fr *Frame) divCheck(d string, reach string, pos token.Pos) {
	g := fr.g
	c := sNot(app("=", d, "0"))
	if fr.panics {
		g.oblige("panic", fr.oname("panic", "div0@"+fr.posTag(pos)), "panic", fr.props, reach, c, "division by zero", pos)
	} else {
		g.assume(sImp(reach, c))
	}
}

func (fr *Frame) convert(x *ssa.Convert, st *State) Val {
	g := fr.g
	v := fr.val(x.X)
	from := x.X.Type()
	to := x.Type()
	fs, ts := g.sorts.SortOf(from), g.sorts.SortOf(to)
	_, _, fromInt := intRange(from)
	_, _, toInt := intRange(to)
	switch {
	case fromInt && toInt:
		flo, fhi, _ := intRange(from)
		tlo, thi, _ := intRange(to)
		if flo.Cmp(tlo) >= 0 && fhi.Cmp(thi) <= 0 {
			r := g.goVal(v.T, to)
			r.LZ, r.UB = v.LZ, v.UB
			if r.UB == 0 && flo.Sign() == 0 {
				r.UB = fhi.BitLen()
			}
			return r
		}
		return g.goVal(wrapTo(v.T, to), to)
	case fromInt && ts == SFloat:
		return Val{T: app(g.declareUF("i2f", []string{SInt}, SFloat), v.T), Go: to, Sort: SFloat}
	case fs == SFloat && toInt:
		r := g.goVal(app(g.declareUF("f2i:"+typeStr(to), []string{SFloat}, SInt), v.T), to)
		g.typeFacts(r, st)
		return r
	case fs == SFloat && ts == SFloat:
		return Val{T: v.T, Go: to, Sort: SFloat}
	case isString(to):
		// string(bytes) / string(rune)
		if _, ok := from.Underlying().(*types.Slice); ok {
			uf := g.declareUF("bytes2str", []string{arrSort(SInt, SInt), SInt, SInt}, SInt)
			h := g.elemsHeap(from.Underlying().(*types.Slice).Elem())
			t := app(uf, app("select", g.heapGet(st, h), app("sl.base", v.T)), app("sl.off", v.T), app("sl.len", v.T))
			g.assume(app("=", app("strlen", t), app("sl.len", v.T)))
			return Val{T: t, Go: to, Sort: SInt}
		}
		r := fr.havocVal(to, "str", st)
		return r
	case isString(from):
		if sl, ok := to.Underlying().(*types.Slice); ok {
			ref := fr.newRef(st)
			h := g.elemsHeap(sl.Elem())
			uf := g.declareUF("str2bytes", []string{SInt}, arrSort(SInt, SInt))
			g.heapSet(st, h, app("store", g.heapGet(st, h), ref, app(uf, v.T)))
			return Val{T: app("mkslice", ref, "0", app("strlen", v.T), app("strlen", v.T)), Go: to, Sort: SSlice}
		}
	}
	if fs == ts {
		r := v
		r.Go = to
		return r
	}
	efail("conversion %s -> %s", typeStr(from), typeStr(to))
	return Val{}
}

func (fr *Frame) makeInterface(x *ssa.MakeInterface, st *State) Val {
	g := fr.g
	v := fr.val(x.X)
	ct := x.X.Type()
	if v.Loc != nil && v.T == "" {
		fr.escape(v, st)
		r := fr.havocVal(x.Type(), "iface-of-addr", st)
		g.assume(sNot(app("=", r.T, "0")))
		return r
	}
	if v.Loc != nil {
		fr.escape(v, st)
	}
	srt := g.sorts.SortOf(ct)
	name := "mkif:" + typeStr(ct)
	mk := g.declareUF(name, []string{srt}, SInt)
	un := g.declareUF("ifval:"+typeStr(ct), []string{SInt}, srt)
	t := app(mk, v.T)
	g.assume(sAnd(sEq(app(un, t), v.T), app("=", app("typeof", t), g.typeTag(ct)), app(">", t, "0")))
	return Val{T: t, Go: x.Type(), Sort: SInt}
}

func (fr *Frame) typeAssert(x *ssa.TypeAssert, st *State, reach string) Val {
	g := fr.g
	v := fr.val(x.X)
	at := x.AssertedType
	var okT, valT string
	if _, isIface := at.Underlying().(*types.Interface); isIface {
		okb := fr.havocVal(types.Typ[types.Bool], "assert.ok", st)
		g.assume(sImp(okb.T, sNot(app("=", v.T, "0"))))
		okT, valT = okb.T, v.T
	} else {
		srt := g.sorts.SortOf(at)
		un := g.declareUF("ifval:"+typeStr(at), []string{SInt}, srt)
		okT = sAnd(sNot(app("=", v.T, "0")), app("=", app("typeof", v.T), g.typeTag(at)))
		valT = app(un, v.T)
	}
	val := Val{T: valT, Go: at, Sort: g.sorts.SortOf(at)}
	if x.CommaOk {
		val.T = sIte(okT, valT, g.sorts.ZeroOf(at))
		g.typeFacts(Val{T: valT, Go: at, Sort: val.Sort}, st)
		return Val{Go: x.Type(), Tup: []Val{val, {T: okT, Go: types.Typ[types.Bool], Sort: SBool}}}
	}
	if fr.panics {
		g.oblige("panic", fr.oname("panic", "typeassert@"+fr.posTag(x.Pos())), "panic", fr.props, reach, okT, "type assertion may fail", x.Pos())
	} else {
		g.assume(sImp(reach, okT))
	}
	g.typeFacts(val, st)
	return val
}

func (fr *Frame) sliceOp(x *ssa.Slice, st *State, reach string) Val {
	g := fr.g
	base := fr.val(x.X)
	var lo, hi, mx string
	if x.Low != nil {
		lo = fr.val(x.Low).T
	} else {
		lo = "0"
	}
	check := func(c string, what string) {
		if fr.panics {
			g.oblige("panic", fr.oname("panic", "slice-"+what+"@"+fr.posTag(x.Pos())), "panic", fr.props, reach, c, "slice bounds out of range", x.Pos())
		} else {
			g.assume(sImp(reach, c))
		}
	}
	switch u := x.X.Type().Underlying().(type) {
	case *types.Slice:
		if x.High != nil {
			hi = fr.val(x.High).T
		} else {
			hi = slPart(base, 2)
		}
		capT := slPart(base, 3)
		if x.Max != nil {
			mx = fr.val(x.Max).T
			check(sAnd(app("<=", "0", lo), app("<=", lo, hi), app("<=", hi, mx), app("<=", mx, capT)), "bounds")
		} else {
			mx = capT
			check(sAnd(app("<=", "0", lo), app("<=", lo, hi), app("<=", hi, capT)), "bounds")
		}
		r := mkSlice(slPart(base, 0), simpArith("+", slPart(base, 1), lo), simpArith("-", hi, lo), simpArith("-", mx, lo))
		r.T = g.define("slice", SSlice, r.T)
		r.Go = x.Type()
		return r
	case *types.Basic: // string
		if x.High != nil {
			hi = fr.val(x.High).T
		} else {
			hi = app("strlen", base.T)
		}
		check(sAnd(app("<=", "0", lo), app("<=", lo, hi), app("<=", hi, app("strlen", base.T))), "bounds")
		uf := g.declareUF("substr", []string{SInt, SInt, SInt}, SInt)
		t := app(uf, base.T, lo, hi)
		g.assume(app("=", app("strlen", t), app("-", hi, lo)))
		return Val{T: t, Go: x.Type(), Sort: SInt}
	case *types.Pointer:
		at := u.Elem().Underlying().(*types.Array)
		n := fmt.Sprint(at.Len())
		if x.High != nil {
			hi = fr.val(x.High).T
		} else {
			hi = n
		}
		check(sAnd(app("<=", "0", lo), app("<=", lo, hi), app("<=", hi, n)), "bounds")
		if base.Loc != nil && base.T == "" {
			// array inside an in-line struct: a read-only view (fresh copy); writes through it are not tracked
			g.note("%s: slicing an array nested in an in-line struct: modelled as a copy (writes through the slice are lost)", fr.fn)
			arr := g.loadLoc(st, base.Loc)
			ref := fr.newRef(st)
			h := g.elemsHeap(at.Elem())
			g.heapSet(st, h, app("store", g.heapGet(st, h), ref, arr.T))
			return Val{T: app("mkslice", ref, lo, app("-", hi, lo), app("-", n, lo)), Go: x.Type(), Sort: SSlice}
		}
		fr.nilCheck(base, reach, x.Pos(), "array")
		r := mkSlice(base.T, lo, simpArith("-", hi, lo), simpArith("-", n, lo))
		r.Go = x.Type()
		return r
	}
	efail("slice of %s", typeStr(x.X.Type()))
	return Val{}
}

func (fr *Frame) lookupOp(x *ssa.Lookup, st *State, reach string) Val {
	g := fr.g
	m := fr.val(x.X)
	k := fr.val(x.Index)
	switch u := x.X.Type().Underlying().(type) {
	case *types.Map:
		dom, val, _ := g.mapHeaps(u)
		// reads of package-level maps are recorded so that a counterexample can set the entries it needs
		if ld, ok := x.X.(*ssa.UnOp); ok && fr.depth == 0 {
			if gl, ok := ld.X.(*ssa.Global); ok && g.sorts.SortOf(u.Key()) == SInt && len(g.lookups) < 8 {
				g.lookups = append(g.lookups, lookupRec{global: gl, mapT: u, key: k.T, mapV: m.T})
			}
		}
		present := app("select", app("select", g.heapGet(st, dom), m.T), k.T)
		raw := app("select", app("select", g.heapGet(st, val), m.T), k.T)
		present = sAnd(sNot(app("=", m.T, "0")), present)
		rv := Val{T: raw, Go: u.Elem(), Sort: g.sorts.SortOf(u.Elem())}
		g.typeFacts(rv, st)
		v := Val{T: g.define("lookup", rv.Sort, sIte(present, raw, g.sorts.ZeroOf(u.Elem()))), Go: u.Elem(), Sort: rv.Sort}
		if x.CommaOk {
			return Val{Go: x.Type(), Tup: []Val{v, {T: g.define("lookup.ok", SBool, present), Go: types.Typ[types.Bool], Sort: SBool}}}
		}
		return v
	default: // string index
		fr.boundsCheck(k.T, app("strlen", m.T), reach, x.Pos(), "string index")
		v := g.goVal(app(g.declareUF("strat", []string{SInt, SInt}, SInt), m.T, k.T), types.Typ[types.Uint8])
		g.typeFacts(v, st)
		return v
	}
}

func (fr *Frame) mapUpdate(x *ssa.MapUpdate, st *State, reach string) {
	g := fr.g
	m := fr.val(x.Map)
	k := fr.val(x.Key)
	v := fr.val(x.Value)
	mt := x.Map.Type().Underlying().(*types.Map)
	fr.nilCheck(m, reach, x.Pos(), "map")
	g.mapStore(st, mt, m.T, k.T, v.T)
}

func (g *Gen) mapStore(st *State, mt *types.Map, m, k, v string) {
	dom, val, ln := g.mapHeaps(mt)
	d := g.heapGet(st, dom)
	was := app("select", app("select", d, m), k)
	l := g.heapGet(st, ln)
	g.heapSet(st, ln, app("store", l, m, sIte(was, app("select", l, m), app("+", app("select", l, m), "1"))))
	g.heapSet(st, dom, app("store", d, m, app("store", app("select", d, m), k, "true")))
	vh := g.heapGet(st, val)
	g.heapSet(st, val, app("store", vh, m, app("store", app("select", vh, m), k, v)))
}

func (g *Gen) mapDelete(st *State, mt *types.Map, m, k string) {
	dom, _, ln := g.mapHeaps(mt)
	d := g.heapGet(st, dom)
	was := app("select", app("select", d, m), k)
	l := g.heapGet(st, ln)
	g.heapSet(st, ln, app("store", l, m, sIte(was, app("-", app("select", l, m), "1"), app("select", l, m))))
	g.heapSet(st, dom, app("store", d, m, app("store", app("select", d, m), k, "false")))
}

func (fr *Frame) nextOp(x *ssa.Next, st *State) Val {
	g := fr.g
	it := fr.val(x.Iter)
	ok := fr.havocVal(types.Typ[types.Bool], "range.ok", st)
	tup := x.Type().(*types.Tuple)
	if x.IsString {
		return Val{Go: x.Type(), Tup: []Val{ok, fr.havocVal(tup.At(1).Type(), "range.k", st), fr.havocVal(tup.At(2).Type(), "range.v", st)}}
	}
	mt := it.Go.Underlying().(*types.Map)
	dom, val, ln := g.mapHeaps(mt)
	k := Val{T: g.fresh("range.k", g.sorts.SortOf(mt.Key())), Go: mt.Key(), Sort: g.sorts.SortOf(mt.Key())}
	g.typeFacts(k, st)
	g.assume(sImp(ok.T, sAnd(app("select", app("select", g.heapGet(st, dom), it.T), k.T), sNot(app("=", it.T, "0")), app(">", app("select", g.heapGet(st, ln), it.T), "0"))))
	if it.Loc != nil && strings.Contains(it.Loc.Heap, ".visited#") {
		// each key is yielded at most once, and the iteration ends only when every key of the map has been yielded
		// (for a map that is not modified during the iteration)
		vis := g.heapGet(st, it.Loc.Heap)
		g.assume(sImp(ok.T, sNot(app("select", vis, k.T))))
		ks := g.sorts.SortOf(mt.Key())
		g.assume(sImp(sNot(ok.T), fmt.Sprintf("(forall ((k! %s)) (! (=> (select (select %s %s) k!) (select %s k!)) :pattern ((select %s k!))))",
			ks, g.heapGet(st, dom), it.T, vis, vis)))
		g.heapSet(st, it.Loc.Heap, sIte(ok.T, app("store", vis, k.T, "true"), vis))
	}
	v := Val{T: app("select", app("select", g.heapGet(st, val), it.T), k.T), Go: mt.Elem(), Sort: g.sorts.SortOf(mt.Elem())}
	g.typeFacts(v, st)
	// the tuple's declared component types may be invalid types when unused
	return Val{Go: x.Type(), Tup: []Val{ok, k, v}}
}

func calleeName(c *ssa.CallCommon) string {
	if c.IsInvoke() {
		return c.Method.FullName()
	}
	if f := c.StaticCallee(); f != nil {
		return f.String()
	}
	if b, ok := c.Value.(*ssa.Builtin); ok {
		return "builtin." + b.Name()
	}
	// call through a function value: named by the NAMED function type of the value when it has one
	// (contracts: `//@ func dynamic:TransferFunc`), else by the register
	if nt, ok := c.Value.Type().(*types.Named); ok && nt.Obj().Pkg() != nil {
		return "dynamic:" + nt.Obj().Pkg().Path() + "." + nt.Obj().Name()
	}
	// a parameter / captured variable of an unnamed function type: dynamic:<pkg>.<name>  (contract `//@ func dynamic:reconstruct`)
	switch pv := c.Value.(type) {
	case *ssa.Parameter:
		if pf := pv.Parent(); pf != nil {
			for f := pf; f != nil; f = f.Parent() {
				if f.Pkg != nil {
					return "dynamic:" + f.Pkg.Pkg.Path() + "." + pv.Name()
				}
			}
		}
	case *ssa.FreeVar:
		if pf := pv.Parent(); pf != nil {
			for f := pf; f != nil; f = f.Parent() {
				if f.Pkg != nil {
					return "dynamic:" + f.Pkg.Pkg.Path() + "." + pv.Name()
				}
			}
		}
	}
	// a local function variable assigned from known functions only (logFn := logging.Debug; if … { logFn = logging.Warn }):
	// named by the sorted set of its possible targets, which is stable under edits elsewhere in the function
	if ts := phiTargets(c.Value, map[ssa.Value]bool{}); len(ts) > 0 {
		sort.Strings(ts)
		return "dynamic:oneof(" + strings.Join(ts, "|") + ")"
	}
	return "dynamic:" + c.Value.Name()
}

// phiTargets: the static functions a value can be when it is a function constant or a phi of such values; nil otherwise.
func phiTargets(v ssa.Value, seen map[ssa.Value]bool) []string {
	switch x := v.(type) {
	case *ssa.Function:
		return []string{x.String()}
	case *ssa.Phi:
		if seen[x] {
			return []string{}
		}
		seen[x] = true
		var out []string
		have := map[string]bool{}
		for _, e := range x.Edges {
			ts := phiTargets(e, seen)
			if ts == nil {
				return nil
			}
			for _, t := range ts {
				if !have[t] {
					have[t] = true
					out = append(out, t)
				}
			}
		}
		return out
	}
	return nil
}

// effectFree: callees declared to have no effect on modelled state (loggers, metrics, locks, formatting).
func (g *Gen) effectFree(name string) bool {
	if strings.HasPrefix(name, "dynamic:oneof(") && strings.HasSuffix(name, ")") {
		// every possible target is effect-free
		for _, t := range strings.Split(strings.TrimSuffix(strings.TrimPrefix(name, "dynamic:oneof("), ")"), "|") {
			if !g.effectFree(t) {
				return false
			}
		}
		return true
	}
	for _, p := range builtinEffectFree {
		if matchPattern(p, name) {
			return true
		}
	}
	for _, p := range g.P.db.EffectFree {
		if scope := g.P.db.EffectFreeProp[p]; scope != "" && g.prop != "" {
			inScope := false
			for _, sp := range strings.Split(scope, ",") {
				if sp == g.prop {
					inScope = true
				}
			}
			if !inScope {
				continue // declared for another property only
			}
		}
		if matchPattern(p, name) {
			g.trusted["effectfree "+p] = true
			return true
		}
	}
	return false
}

var builtinEffectFree = []string{
	"(*sync.Mutex).*", "(*sync.RWMutex).*", "(*sync.WaitGroup).*", "(*sync.Once).*",
	"fmt.Sprintf", "fmt.Sprint", "fmt.Sprintln", "fmt.Println", "fmt.Printf", "fmt.Errorf", "errors.New",
	"github.com/youchainhq/go-youchain/logging.Trace", "github.com/youchainhq/go-youchain/logging.Debug", "github.com/youchainhq/go-youchain/logging.Info",
	"github.com/youchainhq/go-youchain/logging.Warn", "github.com/youchainhq/go-youchain/logging.Error",
	"(github.com/youchainhq/go-youchain/logging.Logger).*",
	"time.Now", "time.Since", "(time.Time).*", "(time.Duration).*",
	"(*github.com/youchainhq/go-youchain/metrics.*",
	"(github.com/youchainhq/go-youchain/metrics.*",
	"(github.com/youchainhq/go-youchain/common.Hash).String", "(github.com/youchainhq/go-youchain/common.Address).String",
	"(github.com/youchainhq/go-youchain/common.Hash).Hex", "(github.com/youchainhq/go-youchain/common.Address).Hex",
	"(github.com/youchainhq/go-youchain/common.Hash).TerminalString",
	"(*math/big.Int).String", "(*sync/atomic.*", "sync/atomic.Load*",
	"(github.com/youchainhq/go-youchain/common.StorageSize).*",
	"(github.com/youchainhq/go-youchain/common.PrettyDuration).*",
}

func matchPattern(p, name string) bool {
	if strings.HasSuffix(p, "*") {
		return strings.HasPrefix(name, strings.TrimSuffix(p, "*"))
	}
	return p == name
}
