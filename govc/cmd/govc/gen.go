package main

import (
	"fmt"
	"go/token"
	"go/types"
	"sort"
	"strings"

	"golang.org/x/tools/go/ssa"
)

// ---------------------------------------------------------------------------------------------
// Values, locations, states
// ---------------------------------------------------------------------------------------------

// Val is the symbolic value of an SSA register or of a contract expression.
type Val struct {
	T    string     // SMT term
	Loc  *Loc       // symbolic address (pointers to non-struct memory, or into in-line structs)
	Tup  []Val      // tuple components
	Go   types.Type // Go type if known
	Sort string     // SMT sort
	Fn   *ssa.Function
	Bind []Val // closure bindings
	Bad  string // non-empty: value could not be modelled (reason); T is an unconstrained constant
	Parts []string // for locally constructed slices: base, off, len, cap (lets len()/cap() fold to simple terms)
	NilIf string   // for symbolic addresses that may also be nil (phi of nil and an address): the condition under which it is nil
	LZ    int      // number of low bits known to be zero (value is a multiple of 2^LZ)
	UB    int      // value known to be in [0, 2^UB) when UB > 0
}

func slPart(v Val, i int) string {
	if len(v.Parts) == 4 {
		return v.Parts[i]
	}
	return app([]string{"sl.base", "sl.off", "sl.len", "sl.cap"}[i], v.T)
}

// simpArith folds (+ a b) / (- a b) over small decimal constants.
func simpArith(op, a, b string) string {
	var x, y int64
	_, e1 := fmt.Sscanf(a, "%d", &x)
	_, e2 := fmt.Sscanf(b, "%d", &y)
	if e1 == nil && e2 == nil && fmt.Sprint(x) == a && fmt.Sprint(y) == b {
		switch op {
		case "+":
			return sInt(x + y)
		case "-":
			return sInt(x - y)
		}
	}
	if b == "0" {
		return a
	}
	if a == "0" && op == "+" {
		return b
	}
	return app(op, a, b)
}

func mkSlice(base, off, ln, cp string) Val {
	return Val{T: app("mkslice", base, off, ln, cp), Sort: SSlice, Parts: []string{base, off, ln, cp}}
}

type PathEl struct {
	Sel   string // datatype selector symbol (field access) or ""
	Ctor  *Datatype
	FIdx  int
	Index string // array index term (when Sel == "")
	ASort string // sort of the array being indexed
}

// Loc is a symbolic address: a root heap cell plus a path of selectors into the stored value.
type Loc struct {
	Heap string   // heap name
	Idx  []string // 0 (global / ghost), 1 (field, cell, bigval) or 2 (elems: base, index) index terms
	Path []PathEl
	T    types.Type // type of the addressed content
}

type State struct {
	h     map[string]string
	epoch int
	// a state produced by merging predecessors with different epochs: heaps not mentioned so far are merged lazily
	preds []*State
	conds []string
}

func (s *State) clone() *State {
	n := &State{h: make(map[string]string, len(s.h)), epoch: s.epoch, preds: s.preds, conds: s.conds}
	for k, v := range s.h {
		n.h[k] = v
	}
	return n
}

type Oblig struct {
	Name   string
	Kind   string // ensures, requires-sat, call-pre, inv-entry, inv-pres, decreases, panic, lemma, assert, cover, axioms-sat
	Func   string
	Label  string
	Props  []string
	NCmds  int    // number of generator commands that precede this obligation
	Reach  string // term
	Cond   string // term that must hold when Reach
	Src    string
	Pos    string
	Expect string // "unsat" (default) or "sat" (covers)
	Gen    *Gen
	Extra  []string // extra asserts (known finding regions)
	Region string   // known-finding region predicate evaluated at the obligation's program point
	Values []string // terms to get-value on sat
	VNames []string
}

type Gen struct {
	P         *Prog
	sorts     *Sorts
	cmds      []string
	obligs    []*Oblig
	heapSorts map[string]string
	binderIDs map[*EQuant]int
	heapKeySort map[string]string
	declared  map[string]bool
	nfresh    int
	fieldIDs  map[string]int
	strLits   map[string]string
	typeTags  map[string]int
	root      *ssa.Function
	fc        *FuncContract
	entry     *State
	notes     []string // imprecision notes (havoc fallbacks, unsupported instructions)
	trusted   map[string]bool
	nEpoch    int
	inlineStk []*ssa.Function
	ghost     map[string]bool // heap names that are ghost variables (not havocked by unknown calls)
	funcIDs   map[string]int
	uf        map[string]bool
	regions   map[string]string // obligation name -> known-finding region (contract expression)
	curEnv    func() *Env
	prop      string
	pure      int // >0: pure-term mode
	escaped   map[string]bool // Local: heaps whose address escaped
	nLocal    int
	replay    *ReplayPlan
	onlyAsserts bool
	lookups   []lookupRec
	heapElem  map[string]types.Type // Go type of the values stored in a heap (for well-formedness axioms)
	heapDepth map[string]int        // number of index levels (1: field/cell, 2: elems/map values)
}

// keepHeap: heaps an unknown callee cannot write: ghost variables, immutable globals, address-taken locals that never escaped.
func (g *Gen) keepHeap(k string) bool {
	return g.ghost[k] || g.immutableHeap(k) || (strings.HasPrefix(k, "Local:") && !g.escaped[k])
}

func NewGen(p *Prog) *Gen {
	g := newGen0(p)
	g.sorts = NewSorts()
	g.regHeap("Alloc", SInt)
	return g
}

func newGen0(p *Prog) *Gen {
	return &Gen{P: p, sorts: p.sorts, heapSorts: map[string]string{}, declared: map[string]bool{}, fieldIDs: map[string]int{},
		strLits: map[string]string{}, typeTags: map[string]int{}, trusted: map[string]bool{}, ghost: map[string]bool{}, funcIDs: map[string]int{}, uf: map[string]bool{}, escaped: map[string]bool{}, heapElem: map[string]types.Type{}, heapDepth: map[string]int{}, heapKeySort: map[string]string{}}
}

func (g *Gen) emit(cmd string) {
	if g.pure > 0 {
		// pure-term mode (closure bodies inlined under quantifiers): only declarations of global symbols may be emitted
		if strings.HasPrefix(cmd, "(declare-const |") && strings.Contains(cmd, "@e") || strings.HasPrefix(cmd, "(declare-fun ") ||
			strings.HasPrefix(cmd, "(declare-const ") && strings.Contains(cmd, "@e") {
			g.cmds = append(g.cmds, cmd)
		}
		return
	}
	g.cmds = append(g.cmds, cmd)
}

func (g *Gen) note(format string, a ...interface{}) {
	s := fmt.Sprintf(format, a...)
	for _, n := range g.notes {
		if n == s {
			return
		}
	}
	g.notes = append(g.notes, s)
}

func (g *Gen) fresh(prefix, sort string) string {
	if g.pure > 0 {
		panic(evalErr{"fresh symbol needed while inlining a pure closure"})
	}
	g.nfresh++
	sym := quote(fmt.Sprintf("%s!%d", prefix, g.nfresh))
	g.emit(fmt.Sprintf("(declare-const %s %s)", sym, sort))
	return sym
}

// define introduces a named abbreviation for a term (keeps the script a DAG).
func (g *Gen) define(prefix, sort, term string) string {
	if g.pure > 0 {
		return term
	}
	if len(term) < 40 && !strings.Contains(term, " ") {
		return term
	}
	g.nfresh++
	sym := quote(fmt.Sprintf("%s!%d", prefix, g.nfresh))
	g.emit(fmt.Sprintf("(define-fun %s () %s %s)", sym, sort, term))
	return sym
}

// bindConst names a term by a declared constant (not a macro): safe inside quantifier patterns.
func (g *Gen) bindConst(prefix, sort, term string) string {
	if !strings.ContainsAny(term, " (") {
		return term
	}
	c := g.fresh(prefix, sort)
	g.assume(app("=", c, term))
	return c
}

// engineQuantTag marks engine-generated quantified background axioms (heap well-formedness, copy/append contents):
// they are left out of satisfiability (vacuity) queries, which they make very slow without affecting the answer in practice.
const engineQuantTag = "; engine-quantifier\n"

func (g *Gen) assumeEngineQuant(term string) {
	if g.pure > 0 {
		return
	}
	g.emit(engineQuantTag + "(assert " + term + ")")
}

func (g *Gen) assume(term string) {
	if term == "true" || term == "" {
		return
	}
	g.emit("(assert " + term + ")")
}

func (g *Gen) declareUF(name string, args []string, ret string) string {
	sym := quote(name)
	if !g.uf[sym] {
		g.uf[sym] = true
		g.emit(fmt.Sprintf("(declare-fun %s (%s) %s)", sym, strings.Join(args, " "), ret))
	}
	return sym
}

// ---------------------------------------------------------------------------------------------
// Heap
// ---------------------------------------------------------------------------------------------

func (g *Gen) heapSort(name string) string {
	s, ok := g.heapSorts[name]
	if !ok {
		panic("heap without sort: " + name)
	}
	return s
}

func (g *Gen) regHeap(name, sort string) string {
	if old, ok := g.heapSorts[name]; ok && old != sort {
		panic(fmt.Sprintf("heap %s registered with sorts %s and %s", name, old, sort))
	}
	g.heapSorts[name] = sort
	return name
}

func (g *Gen) heapGet(st *State, name string) string {
	if t, ok := st.h[name]; ok {
		return t
	}
	if len(st.preds) > 0 {
		// lazily merge the predecessors' versions of a heap first mentioned after the merge
		var ts []string
		for _, p := range st.preds {
			ts = append(ts, g.heapGet(p, name))
		}
		same := true
		for _, t := range ts[1:] {
			if t != ts[0] {
				same = false
			}
		}
		t := ts[0]
		if !same {
			t = g.define(name, g.heapSort(name), mergeTerms(st.conds, ts))
		}
		st.h[name] = t
		return t
	}
	ep := st.epoch
	if g.ghost[name] || g.immutableHeap(name) {
		ep = 0 // never written by unmodelled code: an untouched ghost/constant still has its entry value
	}
	sym := quote(fmt.Sprintf("%s@e%d", name, ep))
	if !g.declared[sym] {
		g.declared[sym] = true
		g.emit(fmt.Sprintf("(declare-const %s %s)", sym, g.heapSort(name)))
		if name == "Alloc" {
			g.assume(app(">=", sym, "1"))
		}
		g.heapWF(st, name, sym, ep)
		if g.immutableHeap(name) {
			// immutable package-level error value: never nil, distinct from every other such constant and from dynamic errors
			g.assume(app("<", sym, "0"))
			for _, other := range sortedKeysB(g.declared) {
				if strings.HasPrefix(other, "cgsym:") && other != "cgsym:"+sym {
					g.assume(sNot(app("=", sym, strings.TrimPrefix(other, "cgsym:"))))
				}
			}
			g.declared["cgsym:"+sym] = true
		}
	}
	return sym
}

// heapWF: every reference stored, as of the epoch start, in a cell of an object that exists at the epoch start
// denotes an object allocated before that moment (so objects allocated later cannot alias what is read from an
// unmodified cell). Cells of not-yet-allocated objects are unconstrained.
func (g *Gen) heapWF(st *State, name, sym string, ep int) {
	el, ok := g.heapElem[name]
	if !ok || g.pure > 0 {
		return
	}
	type proj struct {
		f  func(t string) string
		lo bool
	}
	var projs []proj
	var gather func(t types.Type, f func(string) string, depth int)
	gather = func(t types.Type, f func(string) string, depth int) {
		switch u := t.Underlying().(type) {
		case *types.Pointer:
			_, isArr := u.Elem().Underlying().(*types.Array)
			projs = append(projs, proj{f, !isArr})
		case *types.Map, *types.Chan:
			projs = append(projs, proj{f, true})
		case *types.Slice:
			projs = append(projs, proj{func(x string) string { return app("sl.base", f(x)) }, true})
		case *types.Struct:
			if depth >= 2 {
				return
			}
			dt := g.sorts.structDT(t, u)
			for i := 0; i < u.NumFields(); i++ {
				acc := dt.Fields[i].Name
				gather(u.Field(i).Type(), func(x string) string { return app(acc, f(x)) }, depth+1)
			}
		}
	}
	gather(el, func(x string) string { return x }, 0)
	if len(projs) == 0 {
		return
	}
	// allocation counter at the start of the epoch (the current one when the epoch has no base symbol)
	base := quote(fmt.Sprintf("Alloc@e%d", ep))
	if !g.declared[base] {
		if ep == 0 {
			base = g.heapGet(&State{h: map[string]string{}}, "Alloc")
		} else {
			base = g.heapGet(st, "Alloc")
		}
	}
	var sel, binders string
	if g.heapDepth[name] == 2 {
		sel = app("select", app("select", sym, "r!"), "i!")
		binders = "((r! Int) (i! Int))"
		if ks, ok := g.heapKeySort[name]; ok {
			binders = "((r! Int) (i! " + ks + "))"
		}
	} else {
		sel = app("select", sym, "r!")
		binders = "((r! Int))"
	}
	var conj []string
	for _, p := range projs {
		c := app("<", p.f(sel), base)
		if p.lo {
			c = sAnd(app("<=", "0", p.f(sel)), c)
		}
		conj = append(conj, c)
	}
	g.emit(engineQuantTag + fmt.Sprintf("(assert (forall %s (! (=> %s %s) :pattern (%s))))", binders, oldObj("r!", base), sAnd(conj...), sel))
}

func (g *Gen) heapSet(st *State, name, term string) {
	st.h[name] = g.define(name, g.heapSort(name), term)
}

// havocAll: an unknown callee may have written any non-ghost heap.
func (g *Gen) havocAll(st *State) {
	oldAlloc := g.heapGet(st, g.allocHeap())
	ghosts := map[string]string{}
	for k, v := range st.h {
		if g.keepHeap(k) {
			ghosts[k] = v
		}
	}
	// kept heaps never mentioned yet keep their current symbol: materialise them first
	for _, k := range sortedKeysS(g.heapSorts) {
		if g.keepHeap(k) {
			if _, ok := ghosts[k]; !ok {
				ghosts[k] = g.heapGet(st, k)
			}
		}
	}
	g.nEpoch++
	st.epoch = g.nEpoch
	st.preds, st.conds = nil, nil
	st.h = ghosts
	newAlloc := g.heapGet(st, g.allocHeap())
	g.assume(app(">=", newAlloc, oldAlloc))
}

func (g *Gen) immutableHeap(name string) bool {
	return strings.HasPrefix(name, "GC:") // constant globals (error values, etc.)
}

func (g *Gen) allocHeap() string { return g.regHeap("Alloc", SInt) }

func (g *Gen) fieldHeap(st types.Type, i int) (name string, ft types.Type) {
	u := st.Underlying().(*types.Struct)
	f := u.Field(i)
	name = "F:" + typeStr(st) + "." + f.Name()
	if len(name) > 150 {
		name = fmt.Sprintf("F:anon%d.%s", g.sorts.structDT(st, u).order, f.Name())
	}
	g.regHeap(name, arrSort(SInt, g.sorts.SortOf(f.Type())))
	g.heapElem[name], g.heapDepth[name] = f.Type(), 1
	return name, f.Type()
}

func (g *Gen) elemsHeap(el types.Type) string {
	name := "Elems:" + typeStr(el)
	g.heapElem[name], g.heapDepth[name] = el, 2
	return g.regHeap(name, arrSort(SInt, arrSort(SInt, g.sorts.SortOf(el))))
}

func (g *Gen) cellHeap(el types.Type) string {
	// cells of named basic types share the heap of their underlying type: *GasPool and (*uint64)(gp) are the same memory
	key := el
	if _, isBasic := el.Underlying().(*types.Basic); isBasic {
		key = el.Underlying()
	}
	g.heapElem["Cell:"+typeStr(key)], g.heapDepth["Cell:"+typeStr(key)] = el, 1
	return g.regHeap("Cell:"+typeStr(key), arrSort(SInt, g.sorts.SortOf(el)))
}

func (g *Gen) bigHeap() string { return g.regHeap("BigVal", arrSort(SInt, SInt)) }

func (g *Gen) mapHeaps(m *types.Map) (dom, val, ln string) {
	k := typeStr(m.Key()) + "," + typeStr(m.Elem())
	ks := g.sorts.SortOf(m.Key())
	dom = g.regHeap("MapDom:"+k, arrSort(SInt, arrSort(ks, SBool)))
	val = g.regHeap("MapVal:"+k, arrSort(SInt, arrSort(ks, g.sorts.SortOf(m.Elem()))))
	g.heapElem[val], g.heapDepth[val] = m.Elem(), 2
	if ks != SInt {
		g.heapKeySort[val] = ks // references stored under non-integer keys (map[common.Hash]*T) are old too
	}
	ln = g.regHeap("MapLen:"+k, arrSort(SInt, SInt))
	return
}

func (g *Gen) globalHeap(gl *ssa.Global) string {
	el := gl.Type().(*types.Pointer).Elem()
	prefix := "G:"
	if g.P.constGlobal(gl) {
		prefix = "GC:"
	}
	return g.regHeap(prefix+shortPkg(gl.Pkg.Pkg.Path())+"."+gl.Name(), g.sorts.SortOf(el))
}

func (g *Gen) fieldID(heap string) string {
	id, ok := g.fieldIDs[heap]
	if !ok {
		id = len(g.fieldIDs) + 1
		g.fieldIDs[heap] = id
	}
	return fmt.Sprint(id)
}

// derivedRef is the address of an array-typed field stored out of line: fa(fieldId, obj).
func (g *Gen) derivedRef(heap string, obj string) string {
	t := app("fa", g.fieldID(heap), obj)
	g.assume(sAnd(app("=", app("fa.obj", t), obj), app("=", app("fa.fld", t), g.fieldID(heap)), app("<", t, "0")))
	return t
}

// ---------------------------------------------------------------------------------------------
// Loads and stores through symbolic locations
// ---------------------------------------------------------------------------------------------

func (g *Gen) locRoot(st *State, l *Loc) string {
	h := g.heapGet(st, l.Heap)
	switch len(l.Idx) {
	case 0:
		return h
	case 1:
		return app("select", h, l.Idx[0])
	default:
		return app("select", app("select", h, l.Idx[0]), l.Idx[1])
	}
}

func (g *Gen) loadLoc(st *State, l *Loc) Val {
	t := g.locRoot(st, l)
	for _, pe := range l.Path {
		if pe.Sel != "" {
			t = app(pe.Sel, t)
		} else {
			t = app("select", t, pe.Index)
		}
	}
	v := Val{T: t, Go: l.T, Sort: g.sorts.SortOf(l.T)}
	g.typeFacts(v, st)
	return v
}

// updatePath returns the new root value after writing v at path inside root.
func (g *Gen) updatePath(root string, path []PathEl, v string) string {
	if len(path) == 0 {
		return v
	}
	pe := path[0]
	if pe.Sel != "" {
		inner := g.updatePath(app(pe.Sel, root), path[1:], v)
		var args []string
		for i, f := range pe.Ctor.Fields {
			if i == pe.FIdx {
				args = append(args, inner)
			} else {
				args = append(args, app(f.Name, root))
			}
		}
		return app(pe.Ctor.Ctor, args...)
	}
	inner := g.updatePath(app("select", root, pe.Index), path[1:], v)
	return app("store", root, pe.Index, inner)
}

func (g *Gen) storeLoc(st *State, l *Loc, v string) {
	h := g.heapGet(st, l.Heap)
	newRootVal := g.updatePath(g.locRoot(st, l), l.Path, v)
	var nh string
	switch len(l.Idx) {
	case 0:
		nh = newRootVal
	case 1:
		nh = app("store", h, l.Idx[0], newRootVal)
	default:
		nh = app("store", h, l.Idx[0], app("store", app("select", h, l.Idx[0]), l.Idx[1], newRootVal))
	}
	g.heapSet(st, l.Heap, nh)
}

// typeFacts asserts the type invariant of a freshly read or havocked value (integer range, pointer allocated).
func (g *Gen) typeFacts(v Val, st *State) {
	if v.Go == nil || v.T == "" {
		return
	}
	g.assume(g.typeInv(v.T, v.Go, st, 0))
}

func (g *Gen) typeInv(t string, ty types.Type, st *State, depth int) string {
	switch u := ty.Underlying().(type) {
	case *types.Basic:
		if u.Info()&types.IsInteger != 0 {
			return inRange(t, ty)
		}
		if u.Info()&types.IsString != 0 {
			return app(">=", app("strlen", t), "0")
		}
	case *types.Pointer:
		lo := app("<=", "0", t)
		if _, isArr := u.Elem().Underlying().(*types.Array); isArr {
			// arrays embedded in heap objects have derived (negative) references: of an existing object
			if st != nil {
				return sOr(app("=", t, "0"), oldObj(t, g.heapGet(st, g.allocHeap())))
			}
			return "true"
		}
		if st != nil {
			return sAnd(lo, app("<", t, g.heapGet(st, g.allocHeap())))
		}
		return lo
	case *types.Map, *types.Chan:
		if st != nil {
			return sAnd(app("<=", "0", t), app("<", t, g.heapGet(st, g.allocHeap())))
		}
		return app("<=", "0", t)
	case *types.Slice:
		f := sAnd(app("<=", "0", app("sl.off", t)), app("<=", "0", app("sl.len", t)), app("<=", app("sl.len", t), app("sl.cap", t)),
			app("<=", app("+", app("sl.off", t), app("sl.cap", t)), "9223372036854775807"), // Go: len and cap fit in int
			app("=>", app("=", app("sl.base", t), "0"), app("=", app("sl.cap", t), "0")))
		if st != nil {
			f = sAnd(f, app("<", app("sl.base", t), g.heapGet(st, g.allocHeap())), app("<=", "0", app("sl.base", t)))
		}
		return f
	case *types.Struct:
		if depth > 2 {
			return "true"
		}
		dt := g.sorts.structDT(ty, u)
		var fs []string
		for i := 0; i < u.NumFields(); i++ {
			fs = append(fs, g.typeInv(app(dt.Fields[i].Name, t), u.Field(i).Type(), st, depth+1))
		}
		return sAnd(fs...)
	}
	return "true"
}

// ---------------------------------------------------------------------------------------------
// Obligations
// ---------------------------------------------------------------------------------------------

func (g *Gen) oblige(kind, name, label string, props []string, reach, cond, src string, pos token.Pos) *Oblig {
	if g.pure > 0 {
		return &Oblig{Name: name, Gen: g}
	}
	if g.onlyAsserts && kind != "assert" && kind != "requires-sat" && kind != "cover" && kind != "cover-info" {
		// `nobody` contract with anchored asserts: everything else about the function stays assumed
		return &Oblig{Name: name, Gen: g}
	}
	o := &Oblig{Name: name, Kind: kind, Label: label, Props: props, Reach: reach, Cond: cond, Src: src, Gen: g, Expect: "unsat"}
	if g.root != nil {
		o.Func = g.root.String()
	}
	if pos.IsValid() {
		o.Pos = g.P.fset.Position(pos).String()
	}
	// make names unique
	base := o.Name
	n := 1
	for {
		dup := false
		for _, x := range g.obligs {
			if x.Name == o.Name {
				dup = true
				break
			}
		}
		if !dup {
			break
		}
		n++
		o.Name = fmt.Sprintf("%s~%d", base, n)
	}
	if rsrc, ok := g.regions[o.Name]; ok && g.curEnv != nil {
		if re, err := parseExprString(rsrc); err == nil {
			if t, err := g.curEnv().EvalBool(re); err == nil {
				o.Region = t
			} else {
				g.note("known-finding region of %s cannot be evaluated: %v", o.Name, err)
			}
		} else {
			g.note("known-finding region of %s does not parse: %v", o.Name, err)
		}
	}
	o.NCmds = len(g.cmds)
	g.obligs = append(g.obligs, o)
	if kind != "cover" && kind != "cover-info" && kind != "requires-sat" {
		// assert-then-assume
		g.assume(sImp(reach, cond))
	}
	return o
}

// Script renders the SMT-LIB script of an obligation.
func (o *Oblig) Script(models bool) string { return o.script(models, false) }

// CandidateScript: the negated obligation WITHOUT the engine's quantified heap axioms — a model of it is only a candidate
// counterexample (fewer assumptions), to be confirmed by replay on the real code.
func (o *Oblig) CandidateScript() string { return o.script(false, true) }

func (o *Oblig) script(models bool, dropEngineQuant bool) string {
	g := o.Gen
	var b strings.Builder
	b.WriteString("(set-option :produce-models true)\n(set-logic ALL)\n")
	if o.Expect == "sat" || dropEngineQuant {
		b.WriteString(strings.Replace(prelude, preludeFaAxiom, "", 1))
	} else {
		b.WriteString(prelude)
	}
	b.WriteString(g.sorts.Decls())
	for _, c := range g.cmds[:o.NCmds] {
		if (o.Expect == "sat" || dropEngineQuant) && strings.HasPrefix(c, engineQuantTag) {
			continue
		}
		b.WriteString(c)
		b.WriteString("\n")
	}
	for _, e := range o.Extra {
		b.WriteString("(assert " + e + ")\n")
	}
	if o.Expect == "sat" {
		b.WriteString("(assert " + sAnd(o.Reach, o.Cond) + ")\n")
	} else {
		b.WriteString("(assert " + o.Reach + ")\n")
		b.WriteString("(assert " + sNot(o.Cond) + ")\n")
	}
	b.WriteString("(check-sat)\n")
	if models && len(o.Values) > 0 {
		b.WriteString("(get-value (" + strings.Join(o.Values, " ") + "))\n")
	}
	return b.String()
}

func sortedKeys(m map[string]string) []string {
	var ks []string
	for k := range m {
		ks = append(ks, k)
	}
	sort.Strings(ks)
	return ks
}

// deterministic iteration orders: the generated scripts (and the fresh-name numbering in them) must not depend on Go's map order
func sortedKeysB(m map[string]bool) []string {
	ks := make([]string, 0, len(m))
	for k := range m {
		ks = append(ks, k)
	}
	sort.Strings(ks)
	return ks
}

func sortedKeysS(m map[string]string) []string {
	ks := make([]string, 0, len(m))
	for k := range m {
		ks = append(ks, k)
	}
	sort.Strings(ks)
	return ks
}
