package main

import (
	"fmt"
	"go/types"
	"math/big"
	"regexp"
	"sort"
	"strings"
)

// ---------------------------------------------------------------------------------------------
// SMT term helpers. Terms are plain strings (s-expressions); sorts are strings too.
// ---------------------------------------------------------------------------------------------

func app(f string, args ...string) string {
	if len(args) == 0 {
		return f
	}
	return "(" + f + " " + strings.Join(args, " ") + ")"
}

func sAnd(xs ...string) string {
	var ys []string
	for _, x := range xs {
		if x == "true" || x == "" {
			continue
		}
		if x == "false" {
			return "false"
		}
		ys = append(ys, x)
	}
	switch len(ys) {
	case 0:
		return "true"
	case 1:
		return ys[0]
	}
	return app("and", ys...)
}

func sOr(xs ...string) string {
	var ys []string
	for _, x := range xs {
		if x == "false" || x == "" {
			continue
		}
		if x == "true" {
			return "true"
		}
		ys = append(ys, x)
	}
	switch len(ys) {
	case 0:
		return "false"
	case 1:
		return ys[0]
	}
	return app("or", ys...)
}

func sNot(x string) string {
	switch x {
	case "true":
		return "false"
	case "false":
		return "true"
	}
	if strings.HasPrefix(x, "(not ") && strings.HasSuffix(x, ")") {
		inner := x[5 : len(x)-1]
		if balanced(inner) {
			return inner
		}
	}
	return app("not", x)
}

func balanced(s string) bool {
	d := 0
	inq := false
	for i := 0; i < len(s); i++ {
		c := s[i]
		if c == '|' {
			inq = !inq
		}
		if inq {
			continue
		}
		if c == '(' {
			d++
		} else if c == ')' {
			d--
			if d < 0 {
				return false
			}
		} else if c == ' ' && d == 0 {
			return false
		}
	}
	return d == 0
}

func sImp(a, b string) string {
	if a == "true" {
		return b
	}
	if a == "false" || b == "true" {
		return "true"
	}
	return app("=>", a, b)
}

func sIte(c, a, b string) string {
	if c == "true" {
		return a
	}
	if c == "false" {
		return b
	}
	if a == b {
		return a
	}
	return app("ite", c, a, b)
}

func sEq(a, b string) string {
	if a == b {
		return "true"
	}
	return app("=", a, b)
}

func sInt(n int64) string {
	if n < 0 {
		return fmt.Sprintf("(- %d)", -n)
	}
	return fmt.Sprintf("%d", n)
}

func sBig(n *big.Int) string {
	if n.Sign() < 0 {
		return "(- " + new(big.Int).Neg(n).String() + ")"
	}
	return n.String()
}

func pow2(n int) *big.Int { return new(big.Int).Lsh(big.NewInt(1), uint(n)) }

func pow2s(n int) string { return pow2(n).String() }

// quote makes an SMT-LIB quoted symbol out of an arbitrary name.
func quote(s string) string {
	simple := true
	for _, c := range s {
		if !(c >= 'a' && c <= 'z' || c >= 'A' && c <= 'Z' || c >= '0' && c <= '9' || c == '_' || c == '.' || c == '$' || c == '!' || c == '@') {
			simple = false
			break
		}
	}
	if simple && len(s) > 0 && !(s[0] >= '0' && s[0] <= '9') {
		return s
	}
	s = strings.ReplaceAll(s, "|", "!")
	s = strings.ReplaceAll(s, "\\", "!")
	return "|" + s + "|"
}

// ---------------------------------------------------------------------------------------------
// Sorts
// ---------------------------------------------------------------------------------------------

const (
	SInt   = "Int"
	SBool  = "Bool"
	SSlice = "Slice"
	SFloat = "F64"
)

func arrSort(idx, el string) string { return "(Array " + idx + " " + el + ")" }

// Sorts registry: datatypes for Go struct types and spec struct types.
type DTField struct {
	Name string // selector symbol (quoted)
	Sort string
	Go   types.Type // nil for spec types
	Raw  string     // field name as written
}

type Datatype struct {
	Name   string // sort symbol
	Ctor   string
	Fields []DTField
	order  int
}

type Sorts struct {
	dts    map[string]*Datatype // by sort symbol
	byType map[string]*Datatype // by go type string
	n      int
	pkgOf  func(t types.Type) string
}

func NewSorts() *Sorts {
	return &Sorts{dts: map[string]*Datatype{}, byType: map[string]*Datatype{}}
}

func shortPkg(p string) string {
	if i := strings.LastIndex(p, "/"); i >= 0 {
		// keep last two path elements for readability/uniqueness
		j := strings.LastIndex(p[:i], "/")
		if j >= 0 && strings.Contains(p, "go-youchain") {
			rest := p[strings.Index(p, "go-youchain")+len("go-youchain"):]
			return strings.TrimPrefix(rest, "/")
		}
		return p
	}
	return p
}

func typeQualifier(p *types.Package) string { return shortPkg(p.Path()) }

var aliasByte = regexp.MustCompile(`\bbyte\b`)
var aliasRune = regexp.MustCompile(`\brune\b`)
var aliasAny = regexp.MustCompile(`\bany\b`)

// typeStr renders a type for heap/sort names; the universe aliases byte/rune are normalised so that identical
// types always share one heap.
func typeStr(t types.Type) string {
	s := types.TypeString(t, typeQualifier)
	if strings.Contains(s, "byte") {
		s = aliasByte.ReplaceAllString(s, "uint8")
	}
	if strings.Contains(s, "rune") {
		s = aliasRune.ReplaceAllString(s, "int32")
	}
	if strings.Contains(s, "any") {
		s = aliasAny.ReplaceAllString(s, "interface{}")
	}
	return s
}

func isBigIntPtr(t types.Type) bool {
	p, ok := t.Underlying().(*types.Pointer)
	if !ok {
		return false
	}
	return isBigInt(p.Elem())
}

func isBigInt(t types.Type) bool {
	n, ok := t.(*types.Named)
	if !ok {
		return false
	}
	o := n.Obj()
	return o.Pkg() != nil && o.Pkg().Path() == "math/big" && o.Name() == "Int"
}

// SortOf maps a Go type to an SMT sort.
func (s *Sorts) SortOf(t types.Type) string {
	switch u := t.Underlying().(type) {
	case *types.Basic:
		switch {
		case u.Info()&types.IsBoolean != 0:
			return SBool
		case u.Info()&types.IsFloat != 0:
			return SFloat
		}
		return SInt // integers, strings (ids), unsafe pointers, complex (opaque), untyped nil
	case *types.Pointer, *types.Map, *types.Chan, *types.Signature, *types.Interface:
		return SInt
	case *types.Slice:
		return SSlice
	case *types.Array:
		return arrSort(SInt, s.SortOf(u.Elem()))
	case *types.Struct:
		return s.structDT(t, u).Name
	case *types.Tuple:
		return "TUPLE"
	}
	return SInt
}

func (s *Sorts) structDT(t types.Type, u *types.Struct) *Datatype {
	key := typeStr(t)
	if dt, ok := s.byType[key]; ok {
		return dt
	}
	name := quote("S:" + key)
	if len(key) > 120 {
		s.n++
		name = quote(fmt.Sprintf("S:anon%d", s.n))
	}
	dt := &Datatype{Name: name, Ctor: quote("mk:" + strings.Trim(name, "|"))}
	s.byType[key] = dt
	s.dts[name] = dt
	for i := 0; i < u.NumFields(); i++ {
		f := u.Field(i)
		fname := f.Name()
		if fname == "_" {
			fname = fmt.Sprintf("_%d", i)
		}
		dt.Fields = append(dt.Fields, DTField{
			Name: quote(strings.Trim(name, "|") + "." + fname),
			Sort: s.SortOf(f.Type()),
			Go:   f.Type(),
			Raw:  f.Name(),
		})
	}
	s.n++
	dt.order = s.n
	if len(dt.Fields) == 0 {
		dt.Fields = append(dt.Fields, DTField{Name: quote(strings.Trim(name, "|") + "._"), Sort: SInt, Raw: "_"})
	}
	return dt
}

func (s *Sorts) AddSpecType(name string, fields []DTField) *Datatype {
	sym := quote("T:" + name)
	dt := &Datatype{Name: sym, Ctor: quote("mk:T:" + name)}
	for _, f := range fields {
		f.Name = quote("T:" + name + "." + f.Raw)
		dt.Fields = append(dt.Fields, f)
	}
	s.n++
	dt.order = s.n
	s.dts[sym] = dt
	return dt
}

func (s *Sorts) Decls() string {
	var dts []*Datatype
	for _, d := range s.dts {
		dts = append(dts, d)
	}
	sort.Slice(dts, func(i, j int) bool { return dts[i].order < dts[j].order })
	var b strings.Builder
	for _, d := range dts {
		fmt.Fprintf(&b, "(declare-datatypes ((%s 0)) (((%s", d.Name, d.Ctor)
		for _, f := range d.Fields {
			fmt.Fprintf(&b, " (%s %s)", f.Name, f.Sort)
		}
		b.WriteString("))))\n")
	}
	return b.String()
}

// ZeroOf returns the SMT term of Go's zero value for t.
func (s *Sorts) ZeroOf(t types.Type) string {
	switch u := t.Underlying().(type) {
	case *types.Basic:
		switch {
		case u.Info()&types.IsBoolean != 0:
			return "false"
		case u.Info()&types.IsFloat != 0:
			return "fzero"
		case u.Info()&types.IsString != 0:
			return "str_empty"
		}
		return "0"
	case *types.Slice:
		return "nilslice"
	case *types.Array:
		return fmt.Sprintf("((as const %s) %s)", s.SortOf(t), s.ZeroOf(u.Elem()))
	case *types.Struct:
		dt := s.structDT(t, u)
		var args []string
		for i := 0; i < u.NumFields(); i++ {
			args = append(args, s.ZeroOf(u.Field(i).Type()))
		}
		if len(args) == 0 {
			args = []string{"0"}
		}
		return app(dt.Ctor, args...)
	}
	return "0"
}

const prelude = `(declare-datatypes ((Slice 0)) (((mkslice (sl.base Int) (sl.off Int) (sl.len Int) (sl.cap Int)))))
(declare-sort F64 0)
(declare-const fzero F64)
(define-fun nilslice () Slice (mkslice 0 0 0 0))
(declare-const str_empty Int)
(declare-fun strlen (Int) Int)
(assert (= (strlen str_empty) 0))
(define-fun tdiv ((x Int) (y Int)) Int (ite (>= x 0) (ite (> y 0) (div x y) (- (div x (- y)))) (ite (> y 0) (- (div (- x) y)) (div (- x) (- y)))))
(define-fun tmod ((x Int) (y Int)) Int (- x (* y (tdiv x y))))
(define-fun absint ((x Int)) Int (ite (>= x 0) x (- x)))
(define-fun minint ((x Int) (y Int)) Int (ite (<= x y) x y))
(define-fun maxint ((x Int) (y Int)) Int (ite (>= x y) x y))
(declare-fun fa (Int Int) Int)
(declare-fun fa.obj (Int) Int)
(declare-fun fa.fld (Int) Int)
` + preludeFaAxiom + `(declare-fun typeof (Int) Int)
(declare-fun band (Int Int) Int)
(declare-fun bor (Int Int) Int)
(declare-fun bxor (Int Int) Int)
(declare-fun bshl (Int Int) Int)
(declare-fun bshr (Int Int) Int)
(declare-fun pow2 (Int) Int)
`

const preludeFaAxiom = "(assert (forall ((f! Int) (o! Int)) (! (and (= (fa.obj (fa f! o!)) o!) (= (fa.fld (fa f! o!)) f!) (< (fa f! o!) 0)) :pattern ((fa f! o!)))))\n"

// intRange returns (lo, hi) inclusive bounds for a Go integer basic type, ok=false when not an integer.
func intRange(t types.Type) (lo, hi *big.Int, ok bool) {
	b, isb := t.Underlying().(*types.Basic)
	if !isb || b.Info()&types.IsInteger == 0 {
		return nil, nil, false
	}
	bits := 64
	switch b.Kind() {
	case types.Int8, types.Uint8:
		bits = 8
	case types.Int16, types.Uint16:
		bits = 16
	case types.Int32, types.Uint32:
		bits = 32
	case types.UntypedInt, types.UntypedRune:
		return nil, nil, false
	}
	if b.Info()&types.IsUnsigned != 0 {
		return big.NewInt(0), new(big.Int).Sub(pow2(bits), big.NewInt(1)), true
	}
	return new(big.Int).Neg(pow2(bits - 1)), new(big.Int).Sub(pow2(bits-1), big.NewInt(1)), true
}

func intBits(t types.Type) (bits int, signed bool) {
	lo, hi, ok := intRange(t)
	if !ok {
		return 0, false
	}
	signed = lo.Sign() < 0
	bits = hi.BitLen()
	if signed {
		bits++
	}
	return
}

// wrapTo wraps a mathematical integer term to the range of Go integer type t.
func wrapTo(term string, t types.Type) string {
	bits, signed := intBits(t)
	if bits == 0 {
		return term
	}
	m := pow2s(bits)
	if !signed {
		return app("mod", term, m)
	}
	h := pow2s(bits - 1)
	return app("-", app("mod", app("+", term, h), m), h)
}

func inRange(term string, t types.Type) string {
	lo, hi, ok := intRange(t)
	if !ok {
		return "true"
	}
	return sAnd(app("<=", sBig(lo), term), app("<=", term, sBig(hi)))
}
