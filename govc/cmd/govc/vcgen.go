package main

import (
	"fmt"
	"go/constant"
	"go/token"
	"go/types"
	"sort"
	"strings"

	"golang.org/x/tools/go/ssa"
)

// ---------------------------------------------------------------------------------------------
// Frames: one per function activation (the function under contract, or an inlined callee)
// ---------------------------------------------------------------------------------------------

type retPoint struct {
	reach   string
	results []Val
	st      *State
}

type loopInfo struct {
	header    *ssa.BasicBlock
	body      map[int]bool
	backPreds []*ssa.BasicBlock
	spec      *LoopSpec
	key       string
	ordinal   int
	hdrState  *State
	entrySt   *State
	entryVars map[string]Val
	decAtHdr  string
	reach     string
}

type Frame struct {
	g        *Gen
	fn       *ssa.Function
	vals     map[ssa.Value]Val
	fc       *FuncContract
	depth    int
	prefix   string
	reachEnd map[int]string
	stEnd    map[int]*State
	edge     map[[2]int]string
	loops    map[int]*loopInfo
	rets     []retPoint
	entry    *State
	panics   bool // generate panic obligations
	props    []string
	callOrd  map[string]int
	anchorOrd map[string]int
	anchorPre map[string]bool
	done     map[int]bool
	curBlock *ssa.BasicBlock
	curIdx   int
	deferred []string
	letVals  map[string]Val
	rangeVisited []rangeVis
	defers   []deferRec
}

type deferRec struct {
	in     *ssa.Defer
	cond   string
	inLoop bool
}

type rangeVis struct {
	r    *ssa.Range
	heap string
}

func (g *Gen) newFrame(fn *ssa.Function, fc *FuncContract, depth int, prefix string) *Frame {
	return &Frame{g: g, fn: fn, vals: map[ssa.Value]Val{}, fc: fc, depth: depth, prefix: prefix, reachEnd: map[int]string{}, stEnd: map[int]*State{},
		edge: map[[2]int]string{}, loops: map[int]*loopInfo{}, callOrd: map[string]int{}, anchorOrd: map[string]int{}, anchorPre: map[string]bool{}, done: map[int]bool{}, letVals: map[string]Val{}}
}

func (fr *Frame) oname(kind, detail string) string {
	base := fr.g.root.String()
	base = strings.ReplaceAll(base, modPath+"/", "")
	if fr.prefix != "" {
		return fmt.Sprintf("%s#%s%s[%s]", base, fr.prefix, kind, detail)
	}
	return fmt.Sprintf("%s#%s[%s]", base, kind, detail)
}

// ---------------------------------------------------------------------------------------------
// Constants and simple values
// ---------------------------------------------------------------------------------------------

func (g *Gen) constVal(cv constant.Value, t types.Type) Val {
	v := Val{Go: t, Sort: g.sorts.SortOf(t)}
	if cv == nil {
		v.T = g.sorts.ZeroOf(t)
		return v
	}
	switch cv.Kind() {
	case constant.Bool:
		if constant.BoolVal(cv) {
			v.T = "true"
		} else {
			v.T = "false"
		}
	case constant.Int:
		if b, ok := t.Underlying().(*types.Basic); ok && b.Info()&types.IsFloat != 0 {
			v.T = g.floatConst(cv.ExactString())
			return v
		}
		s := cv.ExactString()
		if strings.HasPrefix(s, "-") {
			v.T = "(- " + s[1:] + ")"
		} else {
			v.T = s
		}
	case constant.String:
		v.T = g.strLit(constant.StringVal(cv))
	case constant.Float:
		if b, ok := t.Underlying().(*types.Basic); ok && b.Info()&types.IsInteger != 0 {
			if i := constant.ToInt(cv); i.Kind() == constant.Int {
				v.T = i.ExactString()
				return v
			}
		}
		v.T = g.floatConst(cv.ExactString())
	default:
		v.T = g.fresh("const", v.Sort)
	}
	return v
}

func (g *Gen) floatConst(s string) string {
	if s == "0" {
		return "fzero"
	}
	sym := quote("f64:" + s)
	if !g.declared[sym] {
		g.declared[sym] = true
		g.emit(fmt.Sprintf("(declare-const %s F64)", sym))
	}
	return sym
}

func (g *Gen) funcID(fn *ssa.Function) string {
	id, ok := g.funcIDs[fn.String()]
	if !ok {
		id = len(g.funcIDs) + 1000
		g.funcIDs[fn.String()] = id
	}
	return fmt.Sprint(id)
}

func (g *Gen) loadGlobal(st *State, gl *ssa.Global) Val {
	el := gl.Type().(*types.Pointer).Elem()
	h := g.globalHeap(gl)
	v := Val{T: g.heapGet(st, h), Go: el, Sort: g.sorts.SortOf(el)}
	if g.P.constGlobal(gl) {
		return v
	}
	g.typeFacts(v, st)
	return v
}

func (fr *Frame) val(v ssa.Value) Val {
	g := fr.g
	switch x := v.(type) {
	case *ssa.Const:
		return g.constVal(x.Value, x.Type())
	case *ssa.Global:
		el := x.Type().(*types.Pointer).Elem()
		return Val{Loc: &Loc{Heap: g.globalHeap(x), T: el}, Go: x.Type(), Sort: SInt}
	case *ssa.Function:
		return Val{T: g.funcID(x), Fn: x, Go: x.Type(), Sort: SInt}
	case *ssa.Builtin:
		return Val{T: "0", Go: x.Type(), Sort: SInt, Bad: "builtin as value"}
	}
	if r, ok := fr.vals[v]; ok {
		return r
	}
	// value not computed (unreachable block or unsupported producer): unconstrained
	r := fr.havocVal(v.Type(), "undef:"+v.Name(), nil)
	r.Bad = "undefined " + v.Name()
	fr.vals[v] = r
	return r
}

// havocVal makes an unconstrained value of Go type t (with its type invariant).
func (fr *Frame) havocVal(t types.Type, hint string, st *State) Val {
	g := fr.g
	if tup, ok := t.(*types.Tuple); ok {
		var r Val
		r.Go = t
		for i := 0; i < tup.Len(); i++ {
			r.Tup = append(r.Tup, fr.havocVal(tup.At(i).Type(), fmt.Sprintf("%s.%d", hint, i), st))
		}
		return r
	}
	v := Val{T: g.fresh(hint, g.sorts.SortOf(t)), Go: t, Sort: g.sorts.SortOf(t)}
	g.typeFacts(v, st)
	return v
}

// ---------------------------------------------------------------------------------------------
// CFG: block order, loops
// ---------------------------------------------------------------------------------------------

func (fr *Frame) analyseCFG() ([]*ssa.BasicBlock, error) {
	fn := fr.fn
	if len(fn.Blocks) == 0 {
		return nil, fmt.Errorf("function %s has no body", fn)
	}
	// back edges: p -> h where h dominates p
	isBack := func(p, h *ssa.BasicBlock) bool { return h.Dominates(p) }
	// reverse postorder ignoring back edges
	visited := map[int]bool{}
	var post []*ssa.BasicBlock
	var dfs func(b *ssa.BasicBlock)
	dfs = func(b *ssa.BasicBlock) {
		visited[b.Index] = true
		for _, s := range b.Succs {
			if isBack(b, s) || visited[s.Index] {
				continue
			}
			dfs(s)
		}
		post = append(post, b)
	}
	dfs(fn.Blocks[0])
	var order []*ssa.BasicBlock
	for i := len(post) - 1; i >= 0; i-- {
		order = append(order, post[i])
	}
	// loops
	var headers []*ssa.BasicBlock
	for _, b := range order {
		for _, s := range b.Succs {
			if isBack(b, s) {
				li := fr.loops[s.Index]
				if li == nil {
					li = &loopInfo{header: s, body: map[int]bool{s.Index: true}}
					fr.loops[s.Index] = li
					headers = append(headers, s)
				}
				li.backPreds = append(li.backPreds, b)
				// natural loop body: nodes reaching b without passing through s
				var stack []*ssa.BasicBlock
				if !li.body[b.Index] {
					li.body[b.Index] = true
					stack = append(stack, b)
				}
				for len(stack) > 0 {
					n := stack[len(stack)-1]
					stack = stack[:len(stack)-1]
					for _, p := range n.Preds {
						if !li.body[p.Index] && visited[p.Index] {
							li.body[p.Index] = true
							stack = append(stack, p)
						}
					}
				}
			}
		}
	}
	// irreducibility check: every edge into a loop body from outside must target the header
	for _, li := range fr.loops {
		for idx := range li.body {
			if idx == li.header.Index {
				continue
			}
			for _, p := range fn.Blocks[idx].Preds {
				if !li.body[p.Index] && visited[p.Index] {
					return nil, fmt.Errorf("irreducible control flow in %s", fn)
				}
			}
		}
	}
	sort.Slice(headers, func(i, j int) bool { return headers[i].Index < headers[j].Index })
	for i, h := range headers {
		li := fr.loops[h.Index]
		li.ordinal = i + 1
		li.key = fmt.Sprintf("#%d", i+1)
	}
	// attach loop specs
	if fr.fc != nil {
		used := map[string]bool{}
		for _, h := range headers {
			li := fr.loops[h.Index]
			if ls, ok := fr.fc.Loops[li.key]; ok {
				li.spec = ls
				used[li.key] = true
			}
		}
		for key, ls := range fr.fc.Loops {
			if used[key] {
				continue
			}
			if strings.HasPrefix(key, "#") {
				return nil, fmt.Errorf("contract of %s names loop %s but the function has %d loops", fn, key, len(headers))
			}
			// by variable name: the loop whose header has a phi for that variable
			var match []*loopInfo
			for _, h := range headers {
				for _, in := range h.Instrs {
					if phi, ok := in.(*ssa.Phi); ok && phi.Comment == key {
						match = append(match, fr.loops[h.Index])
						break
					}
				}
			}
			if len(match) != 1 {
				return nil, fmt.Errorf("contract of %s: loop key %q matches %d loops", fn, key, len(match))
			}
			if match[0].spec != nil {
				return nil, fmt.Errorf("contract of %s: loop %q has two specifications", fn, key)
			}
			match[0].spec = ls
			match[0].key = key
		}
	}
	return order, nil
}

// ---------------------------------------------------------------------------------------------
// Variable lookup by source name at a program point
// ---------------------------------------------------------------------------------------------

func (fr *Frame) lookupAt(name string, b *ssa.BasicBlock, idx int, st *State) (Val, bool) {
	g := fr.g
	for _, p := range fr.fn.Params {
		if p.Name() == name {
			// a parameter that is reassigned has phis / DebugRefs; prefer those when they dominate
			if v, ok := fr.lookupDebug(name, b, idx, st); ok {
				return v, true
			}
			return fr.val(p), true
		}
	}
	for _, fv := range fr.fn.FreeVars {
		if fv.Name() == name {
			v := fr.val(fv)
			// free variables are addresses of captured variables
			if pt, ok := fv.Type().Underlying().(*types.Pointer); ok {
				return g.loadPtr(st, v, pt.Elem()), true
			}
			return v, true
		}
	}
	if v, ok := fr.lookupDebug(name, b, idx, st); ok {
		return v, true
	}
	if v, ok := fr.letVals[name]; ok {
		return v, true
	}
	if name == "visited" && len(fr.rangeVisited) > 0 {
		// the set of keys already yielded by the (innermost dominating) map range
		for i := len(fr.rangeVisited) - 1; i >= 0; i-- {
			rv := fr.rangeVisited[i]
			if b == nil || rv.r.Block().Dominates(b) {
				h := rv.heap
				return Val{T: fr.g.heapGet(st, h), Sort: fr.g.heapSort(h)}, true
			}
		}
	}
	return Val{}, false
}

func (fr *Frame) lookupDebug(name string, b *ssa.BasicBlock, idx int, st *State) (Val, bool) {
	g := fr.g
	for blk := b; blk != nil; blk = blk.Idom() {
		end := len(blk.Instrs)
		if blk == b && idx >= 0 && idx < end {
			end = idx
		}
		for i := end - 1; i >= 0; i-- {
			switch in := blk.Instrs[i].(type) {
			case *ssa.DebugRef:
				if id, ok := in.Expr.(interface{ String() string }); ok && id.String() == name {
					if _, computed := fr.vals[in.X]; !computed {
						if _, isC := in.X.(*ssa.Const); !isC {
							if _, isG := in.X.(*ssa.Global); !isG {
								if _, isP := in.X.(*ssa.Parameter); !isP {
									continue
								}
							}
						}
					}
					v := fr.val(in.X)
					if in.IsAddr {
						pt := in.X.Type().Underlying().(*types.Pointer)
						return g.loadPtr(st, v, pt.Elem()), true
					}
					// an address-taken local (`node := rawFullNode(n.Children)` later indexed and stored into): the DebugRef of the
					// declaration carries the initial VALUE; the variable's current content is in its cell
					for _, ab := range fr.fn.Blocks {
						if !(ab == blk || ab.Dominates(blk)) {
							continue
						}
						for _, ai := range ab.Instrs {
							if al, ok := ai.(*ssa.Alloc); ok && al.Comment == name {
								if _, computed := fr.vals[al]; computed && types.Identical(al.Type().Underlying().(*types.Pointer).Elem(), in.X.Type()) {
									pt := al.Type().Underlying().(*types.Pointer)
									return g.loadPtr(st, fr.val(al), pt.Elem()), true
								}
							}
						}
					}
					return v, true
				}
			case *ssa.Phi:
				if in.Comment == name {
					if _, computed := fr.vals[in]; computed {
						return fr.val(in), true
					}
				}
			case *ssa.Alloc:
				if in.Comment == name {
					if _, computed := fr.vals[in]; computed {
						pt := in.Type().Underlying().(*types.Pointer)
						return g.loadPtr(st, fr.val(in), pt.Elem()), true
					}
				}
			}
		}
		// phis sit at the block start and are visible from every point of the block
		for _, in := range blk.Instrs {
			phi, ok := in.(*ssa.Phi)
			if !ok {
				break
			}
			if phi.Comment == name {
				if _, computed := fr.vals[phi]; computed {
					return fr.val(phi), true
				}
			}
		}
	}
	return Val{}, false
}

// ---------------------------------------------------------------------------------------------
// Body translation
// ---------------------------------------------------------------------------------------------

func (fr *Frame) mergeStates(conds []string, sts []*State) *State {
	g := fr.g
	if len(sts) == 1 {
		return sts[0].clone()
	}
	sameEpoch := true
	for _, s := range sts[1:] {
		if s.epoch != sts[0].epoch {
			sameEpoch = false
		}
	}
	out := &State{h: map[string]string{}}
	if sameEpoch {
		out.epoch = sts[0].epoch
		if len(sts[0].preds) > 0 {
			// all predecessors are (clones of) lazily merged states of one epoch: keep merging lazily over them
			out.preds, out.conds = sts, conds
		}
	} else {
		g.nEpoch++
		out.epoch = g.nEpoch
		out.preds, out.conds = sts, conds
	}
	names := map[string]bool{}
	for _, s := range sts {
		for k := range s.h {
			names[k] = true
		}
	}
	if !sameEpoch {
		// ghost and immutable heaps survive epoch changes
		for k := range g.heapSorts {
			if g.keepHeap(k) || k == "Alloc" {
				names[k] = true
			}
		}
	}
	var ks []string
	for k := range names {
		ks = append(ks, k)
	}
	sort.Strings(ks)
	for _, k := range ks {
		if !sameEpoch && !g.keepHeap(k) {
			// only keep if every predecessor has an explicit version; otherwise unknown after merge
			all := true
			for _, s := range sts {
				if _, ok := s.h[k]; !ok {
					all = false
				}
			}
			if !all && k != "Alloc" {
				continue
			}
		}
		t := g.heapGet(sts[len(sts)-1], k)
		same := true
		for i := len(sts) - 2; i >= 0; i-- {
			ti := g.heapGet(sts[i], k)
			if ti != t {
				same = false
			}
		}
		if same {
			out.h[k] = t
			continue
		}
		for i := len(sts) - 2; i >= 0; i-- {
			t = sIte(conds[i], g.heapGet(sts[i], k), t)
		}
		out.h[k] = g.define(k, g.heapSort(k), t)
	}
	return out
}

// phiNilOrOneLoc: every edge is either the nil constant or the same symbolic address.
func phiNilOrOneLoc(ts []string, locs []*Loc) bool {
	for _, l := range locs[1:] {
		if fmt.Sprint(*l) != fmt.Sprint(*locs[0]) {
			return false
		}
	}
	n := 0
	for _, t := range ts {
		if t == "0" {
			n++
		} else if t != "" {
			return false
		}
	}
	return n+len(locs) == len(ts)
}

func mergeTerms(conds []string, ts []string) string {
	t := ts[len(ts)-1]
	for i := len(ts) - 2; i >= 0; i-- {
		t = sIte(conds[i], ts[i], t)
	}
	return t
}

func (fr *Frame) run(entry *State, reach string) error {
	g := fr.g
	order, err := fr.analyseCFG()
	if err != nil {
		return err
	}
	fr.entry = entry
	for _, b := range order {
		var conds []string
		var sts []*State
		var preds []*ssa.BasicBlock
		li := fr.loops[b.Index]
		if b.Index == 0 {
			conds = append(conds, reach)
			sts = append(sts, entry)
			preds = append(preds, nil)
		}
		for _, p := range b.Preds {
			if li != nil && li.body[p.Index] {
				continue // back edge
			}
			ec, ok := fr.edge[[2]int{p.Index, b.Index}]
			if !ok {
				continue // predecessor unreachable / not processed
			}
			conds = append(conds, ec)
			sts = append(sts, fr.stEnd[p.Index])
			preds = append(preds, p)
		}
		if len(conds) == 0 {
			continue // unreachable
		}
		breach := g.define(fmt.Sprintf("reach.%s%d", fr.prefix, b.Index), SBool, sOr(conds...))
		st := fr.mergeStates(conds, sts)
		fr.curBlock = b
		// phis
		phiVals := map[*ssa.Phi]Val{}
		for _, in := range b.Instrs {
			phi, ok := in.(*ssa.Phi)
			if !ok {
				break
			}
			var ts []string
			var locs []*Loc
			allLoc := true
			for _, p := range preds {
				var ev Val
				for ei, bp := range b.Preds {
					if bp == p {
						ev = fr.val(phi.Edges[ei])
						break
					}
				}
				if ev.Loc != nil && ev.T != "" && strings.HasPrefix(ev.Loc.Heap, "Local:") {
					g.escaped[ev.Loc.Heap] = true
					g.note("%s: the address of local %s flows through a phi: treated as escaped", fr.fn, ev.Loc.Heap)
				}
				if ev.Loc != nil && ev.T == "" {
					locs = append(locs, ev.Loc)
				} else {
					allLoc = false
				}
				ts = append(ts, ev.T)
			}
			var pv Val
			if allLoc && len(locs) > 0 {
				same := true
				for _, l := range locs[1:] {
					if fmt.Sprint(*l) != fmt.Sprint(*locs[0]) {
						same = false
					}
				}
				if same {
					pv = Val{Loc: locs[0], Go: phi.Type(), Sort: SInt}
				} else {
					pv = fr.havocVal(phi.Type(), "phi-loc", st)
					pv.Bad = "phi of distinct symbolic addresses"
					g.note("%s: phi %s merges distinct symbolic addresses (havocked)", fr.fn, phi.Name())
				}
			} else if len(locs) > 0 && phiNilOrOneLoc(ts, locs) {
				// nil on some edges, one symbolic address on the others: an address that may be nil
				var nilConds []string
				for i, t := range ts {
					if t == "0" {
						nilConds = append(nilConds, conds[i])
					}
				}
				pv = Val{Loc: locs[0], Go: phi.Type(), Sort: SInt, NilIf: g.define("phi.nil", SBool, sOr(nilConds...))}
			} else if len(locs) > 0 {
				pv = fr.havocVal(phi.Type(), "phi-loc", st)
				pv.Bad = "phi mixing symbolic addresses and references"
				g.note("%s: phi %s mixes symbolic addresses and references (havocked)", fr.fn, phi.Name())
			} else {
				srt := g.sorts.SortOf(phi.Type())
				pv = Val{T: g.define("phi."+phi.Name(), srt, mergeTerms(conds, ts)), Go: phi.Type(), Sort: srt}
				// closures/functions: keep static identity if all edges agree
				var fn0 *ssa.Function
				agree := true
				for i, p := range preds {
					for ei, bp := range b.Preds {
						if bp == p {
							ev := fr.val(phi.Edges[ei])
							if i == 0 {
								fn0 = ev.Fn
							} else if ev.Fn != fn0 {
								agree = false
							}
						}
					}
				}
				if agree && fn0 != nil {
					pv.Fn = fn0
				}
			}
			phiVals[phi] = pv
		}
		if li != nil {
			if err := fr.enterLoop(li, b, breach, st, phiVals); err != nil {
				return err
			}
			st = li.hdrState.clone()
		} else {
			for phi, pv := range phiVals {
				fr.vals[phi] = pv
			}
		}
		// instructions
		ended := false
		for i, in := range b.Instrs {
			if _, ok := in.(*ssa.Phi); ok {
				continue
			}
			fr.curIdx = i
			{
				ci := i
				g.curEnv = func() *Env { return fr.envAt(st, b, ci) }
			}
			stop, err := fr.instr(in, st, breach)
			if err != nil {
				return err
			}
			if stop {
				ended = true
				break
			}
		}
		fr.done[b.Index] = true
		if ended {
			continue
		}
		fr.reachEnd[b.Index] = breach
		fr.stEnd[b.Index] = st
		// edges
		last := b.Instrs[len(b.Instrs)-1]
		switch t := last.(type) {
		case *ssa.If:
			c := fr.val(t.Cond).T
			fr.setEdge(b, b.Succs[0], g.define(fmt.Sprintf("edge.%s%d.%d", fr.prefix, b.Index, b.Succs[0].Index), SBool, sAnd(breach, c)), st)
			fr.setEdge(b, b.Succs[1], g.define(fmt.Sprintf("edge.%s%d.%d", fr.prefix, b.Index, b.Succs[1].Index), SBool, sAnd(breach, sNot(c))), st)
		case *ssa.Jump:
			fr.setEdge(b, b.Succs[0], breach, st)
		}
	}
	return nil
}

func (fr *Frame) setEdge(from, to *ssa.BasicBlock, cond string, st *State) {
	// back edge: check the invariant
	if li := fr.loops[to.Index]; li != nil && li.body[from.Index] {
		fr.closeLoop(li, from, cond, st)
		return
	}
	if old, ok := fr.edge[[2]int{from.Index, to.Index}]; ok {
		// two edges between the same blocks (if with identical targets)
		fr.edge[[2]int{from.Index, to.Index}] = sOr(old, cond)
		return
	}
	fr.edge[[2]int{from.Index, to.Index}] = cond
}

// ---------------------------------------------------------------------------------------------
// Loops
// ---------------------------------------------------------------------------------------------

// loopWrites computes the heaps that may be written in the loop body; all=true when unknown.
func (fr *Frame) loopWrites(li *loopInfo) (names map[string]bool, all bool) {
	names = map[string]bool{}
	// ghost variables with anchored updates in this contract: conservatively written by every loop of the function
	// (the anchor may match an instruction of the body); without this the invariant would be assumed over the entry value
	if fr.fc != nil && fr.depth == 0 {
		for _, gh := range fr.fc.Ghosts {
			if !fr.anchorMayMatchIn(gh.Anchor, li) {
				continue // no instruction of the body can carry this anchor: the loop does not write the ghost through it
			}
			if gv, ok := fr.g.P.db.GhostVars[gh.Var]; ok {
				env := fr.envAt(fr.entry, nil, 0)
				env.ghostVal(gv)
				names["Ghost:"+gv.Name] = true
			}
		}
	}
	var idxs []int
	for idx := range li.body {
		idxs = append(idxs, idx)
	}
	sort.Ints(idxs)
	for _, idx := range idxs {
		for _, in := range fr.fn.Blocks[idx].Instrs {
			ws, a := fr.g.instrWrites(fr, in, 0)
			if a {
				all = true
			}
			for _, w := range ws {
				names[w] = true
			}
		}
	}
	return
}

// anchorMayMatchIn: may an instruction of the loop body carry the anchor? Conservative: the ordinal `#k` is ignored (ordinals
// are assigned in translation order), non-call anchors match any instruction of their kind.
func (fr *Frame) anchorMayMatchIn(anchor string, li *loopInfo) bool {
	a := strings.ReplaceAll(strings.Join(strings.Fields(anchor), " "), modPath+"/", "")
	if k := strings.LastIndex(a, "#"); k >= 0 {
		digits := k+1 < len(a)
		for _, c := range a[k+1:] {
			if c < '0' || c > '9' {
				digits = false
			}
		}
		if digits {
			a = a[:k]
		}
	}
	if a == "entry" {
		return false
	}
	kind := a
	if i := strings.Index(a, " "); i >= 0 {
		kind = a[:i]
	}
	for idx := range li.body {
		for _, in := range fr.fn.Blocks[idx].Instrs {
			switch x := in.(type) {
			case ssa.CallInstruction:
				if kind == "delete" {
					if b, ok := x.Common().Value.(*ssa.Builtin); ok && b.Name() == "delete" {
						return true
					}
				}
				if kind == "call" {
					if anchorMatches(a, []string{"call " + shortCallee(calleeName(x.Common()))}) {
						return true
					}
				}
			case *ssa.Store:
				if kind == "store" {
					return true
				}
			case *ssa.MapUpdate:
				if kind == "mapupdate" {
					return true
				}
			case *ssa.Return:
				if kind == "return" {
					return true
				}
			}
		}
	}
	switch kind {
	case "call", "delete", "store", "mapupdate", "return":
		return false
	}
	return true // unknown anchor kind: assume it may match
}

func (fr *Frame) enterLoop(li *loopInfo, b *ssa.BasicBlock, reach string, st *State, phiVals map[*ssa.Phi]Val) error {
	g := fr.g
	li.reach = reach
	li.entrySt = st.clone()
	li.entryVars = map[string]Val{}
	// entry values of the loop variables (for entry(...))
	for phi, pv := range phiVals {
		if phi.Comment != "" {
			li.entryVars[phi.Comment] = pv
		}
	}
	// 1. invariant holds on entry
	if li.spec != nil {
		for _, pv := range []bool{true} {
			_ = pv
			for phi, v := range phiVals {
				fr.vals[phi] = v
			}
			env := fr.envAt(st, b, 0)
			env.lentry = li.entrySt
			env.oldVars = li.entryVars
			for i, inv := range li.spec.Invariants {
				t, err := env.EvalBool(inv.E)
				if err != nil {
					return fmt.Errorf("%s:%d: loop %s invariant: %v", inv.File, inv.Line, li.key, err)
				}
				lbl := inv.Label
				if lbl == "" {
					lbl = fmt.Sprint(i + 1)
				}
				g.oblige("inv-entry", fr.oname("loop"+li.key+".inv-entry", lbl), lbl, fr.props, reach, t, inv.Src, b.Instrs[0].Pos())
			}
		}
	}
	// 2. havoc
	names, all := fr.loopWrites(li)
	hs := st.clone()
	if all {
		g.havocAll(hs)
		// kept heaps (ghosts, locals) that the body writes explicitly must still be havocked
		var ks []string
		for k := range names {
			if g.keepHeap(k) {
				ks = append(ks, k)
			}
		}
		sort.Strings(ks)
		for _, k := range ks {
			hs.h[k] = g.fresh("loop"+li.key+"."+k, g.heapSort(k))
		}
	} else {
		var ks []string
		for k := range names {
			ks = append(ks, k)
		}
		sort.Strings(ks)
		for _, k := range ks {
			if k == "Alloc" {
				continue
			}
			hs.h[k] = g.fresh("loop"+li.key+"."+k, g.heapSort(k))
		}
		if names["Alloc"] {
			oa := g.heapGet(st, "Alloc")
			na := g.fresh("loop"+li.key+".Alloc", SInt)
			g.assume(app(">=", na, oa))
			hs.h["Alloc"] = na
		}
	}
	var phis []*ssa.Phi
	for phi := range phiVals {
		phis = append(phis, phi)
	}
	sort.Slice(phis, func(i, j int) bool { return phis[i].Name() < phis[j].Name() })
	for _, phi := range phis {
		hv := fr.havocVal(phi.Type(), "loop"+li.key+"."+phi.Name()+"."+phi.Comment, hs)
		if pv := phiVals[phi]; pv.Fn != nil {
			hv.Fn = pv.Fn
		}
		fr.vals[phi] = hv
	}
	li.hdrState = hs
	// 3. assume the invariant
	if li.spec != nil {
		env := fr.envAt(hs, b, 0)
		env.lentry = li.entrySt
		env.oldVars = li.entryVars
		for _, inv := range li.spec.Invariants {
			t, err := env.EvalBool(inv.E)
			if err != nil {
				return fmt.Errorf("%s:%d: loop %s invariant: %v", inv.File, inv.Line, li.key, err)
			}
			g.assume(sImp(reach, t))
		}
		if li.spec.Decreases != nil {
			d, err := env.Eval(li.spec.Decreases)
			if err != nil {
				return fmt.Errorf("loop %s decreases: %v", li.key, err)
			}
			li.decAtHdr = g.define("dec"+li.key, SInt, d.T)
		}
	}
	return nil
}

func (fr *Frame) closeLoop(li *loopInfo, from *ssa.BasicBlock, cond string, st *State) {
	g := fr.g
	if li.spec == nil {
		return
	}
	// bind phis to their back-edge values
	saved := map[*ssa.Phi]Val{}
	for _, in := range li.header.Instrs {
		phi, ok := in.(*ssa.Phi)
		if !ok {
			break
		}
		saved[phi] = fr.vals[phi]
		for ei, bp := range li.header.Preds {
			if bp == from {
				fr.vals[phi] = fr.val(phi.Edges[ei])
			}
		}
	}
	env := fr.envAt(st, li.header, 0)
	env.lentry = li.entrySt
	env.oldVars = li.entryVars
	for i, inv := range li.spec.Invariants {
		t, err := env.EvalBool(inv.E)
		lbl := inv.Label
		if lbl == "" {
			lbl = fmt.Sprint(i + 1)
		}
		if err != nil {
			g.note("loop %s invariant %s cannot be evaluated at back edge: %v", li.key, lbl, err)
			t = "false"
		}
		g.oblige("inv-pres", fr.oname("loop"+li.key+".inv-pres", lbl), lbl, fr.props, cond, t, inv.Src, li.header.Instrs[0].Pos())
	}
	if li.spec.Decreases != nil {
		d, err := env.Eval(li.spec.Decreases)
		t := "false"
		if err == nil {
			t = sAnd(app("<", d.T, li.decAtHdr), app(">=", li.decAtHdr, "0"))
		}
		g.oblige("decreases", fr.oname("loop"+li.key+".decreases", "1"), "decreases", fr.props, cond, t, li.spec.DecSrc, li.header.Instrs[0].Pos())
	}
	for phi, v := range saved {
		fr.vals[phi] = v
	}
}

// envAt builds the contract-expression environment for a program point of this frame.
func (fr *Frame) envAt(st *State, b *ssa.BasicBlock, idx int) *Env {
	e := &Env{g: fr.g, vars: map[string]Val{}, st: st, old: fr.entry, pkg: fr.fn.Pkg.Pkg}
	if fr.fn.Pkg == nil && fr.fn.Parent() != nil {
		e.pkg = fr.fn.Parent().Pkg.Pkg
	}
	e.lookup = func(name string) (Val, bool) { return fr.lookupAt(name, b, idx, st) }
	e.params = func(name string) (Val, bool) {
		for _, p := range fr.fn.Params {
			if p.Name() == name {
				if v, ok := fr.vals[p]; ok {
					return v, true
				}
			}
		}
		return Val{}, false
	}
	return e
}

// ---------------------------------------------------------------------------------------------
// Root: verify one function against its contract
// ---------------------------------------------------------------------------------------------

func (g *Gen) VerifyFunction(fn *ssa.Function, fc *FuncContract) error {
	g.root = fn
	g.fc = fc
	g.entry = &State{h: map[string]string{}}
	fr := g.newFrame(fn, fc, 0, "")
	fr.panics = fc.Panics == "none"
	fr.props = fc.Props
	st := g.entry.clone()
	// parameters
	for _, p := range fn.Params {
		v := Val{T: g.fresh("p."+p.Name(), g.sorts.SortOf(p.Type())), Go: p.Type(), Sort: g.sorts.SortOf(p.Type())}
		g.typeFacts(v, st)
		fr.vals[p] = v
	}
	for _, fv := range fn.FreeVars {
		v := Val{T: g.fresh("fv."+fv.Name(), g.sorts.SortOf(fv.Type())), Go: fv.Type(), Sort: g.sorts.SortOf(fv.Type())}
		g.typeFacts(v, st)
		if _, isPtr := fv.Type().Underlying().(*types.Pointer); isPtr {
			g.assume(app(">", v.T, "0")) // the address of a captured variable is never nil
		}
		fr.vals[fv] = v
	}
	entryEnv := fr.envAt(st, fn.Blocks[0], 0)
	entryEnv.old = st
	for i, l := range fc.Lets {
		v, err := entryEnv.Eval(fc.LetE[i])
		if err != nil {
			return fmt.Errorf("%s: let %s: %v", fc.File, l.Name, err)
		}
		v.T = g.define("let."+l.Name, v.Sort, v.T)
		fr.letVals[l.Name] = v
	}
	for _, r := range fc.Requires {
		t, err := entryEnv.EvalBool(r.E)
		if err != nil {
			return fmt.Errorf("%s:%d: requires: %v", r.File, r.Line, err)
		}
		g.assume(t)
	}
	for _, r := range fc.Assumes {
		t, err := entryEnv.EvalBool(r.E)
		if err != nil {
			return fmt.Errorf("%s:%d: assume: %v", r.File, r.Line, err)
		}
		g.assume(t)
		g.trusted[fmt.Sprintf("assume [%s] in %s: %s", r.Label, shortCallee(fc.Key), r.Src)] = true
	}
	o := g.oblige("requires-sat", fr.oname("requires-sat", "entry"), "requires-sat", fc.Props, "true", "true", "preconditions are satisfiable", fn.Pos())
	o.Expect = "sat"
	fr.ghostAnchors("entry", st, "true", nil, Val{})
	if err := fr.run(st, "true"); err != nil {
		return err
	}
	// merge returns
	if len(fr.rets) == 0 {
		g.note("%s: no reachable return", fn)
		return nil
	}
	var conds []string
	var sts []*State
	for _, r := range fr.rets {
		conds = append(conds, r.reach)
		sts = append(sts, r.st)
	}
	exitReach := g.define("reach.exit", SBool, sOr(conds...))
	// vacuity guards: some return is reachable under all assumptions made so far (requires, callee postconditions,
	// loop invariants); per-return covers are informational (a return may legitimately be excluded by the preconditions)
	{
		o := g.oblige("cover", fr.oname("cover", "exit"), "cover", fc.Props, exitReach, "true", "some return is reachable under all assumptions", token.NoPos)
		o.Expect = "sat"
		for i, r := range fr.rets {
			o := g.oblige("cover-info", fr.oname("cover", fmt.Sprintf("return%d", i+1)), "cover", fc.Props, r.reach, "true", "this return is reachable under all assumptions", token.NoPos)
			o.Expect = "sat"
		}
	}
	if fc.Opts["per-return"] != "" {
		// opt per-return: every ensures (and the frame) is checked once per return statement, in that return's own state under
		// its reach condition — the same meaning as on the merged exit state, without the n-way ite chains of the merge
		for _, r := range fr.rets {
			r := r
			env := fr.envAt(r.st, nil, 0)
			env.lookup = func(name string) (Val, bool) {
				for _, p := range fn.Params {
					if p.Name() == name {
						return fr.vals[p], true
					}
				}
				for _, fv := range fn.FreeVars {
					if fv.Name() == name {
						v := fr.vals[fv]
						if pt, ok := fv.Type().Underlying().(*types.Pointer); ok {
							return g.loadPtr(r.st, v, pt.Elem()), true
						}
						return v, true
					}
				}
				if v, ok := fr.letVals[name]; ok {
					return v, true
				}
				return Val{}, false
			}
			for i := range r.results {
				if r.results[i].Loc != nil && r.results[i].T == "" {
					r.results[i].Bad = "symbolic address returned"
				}
			}
			bindResults(env.vars, fn.Signature, r.results)
			g.curEnv = func() *Env { return env }
			for i, c := range fc.Ensures {
				lbl := c.Label
				if lbl == "" {
					lbl = fmt.Sprint(i + 1)
				}
				if c.Assumed {
					g.trusted[fmt.Sprintf("assumed postcondition [%s] of %s: %s", lbl, shortCallee(fc.Key), c.Src)] = true
					continue
				}
				t, err := env.EvalBool(c.E)
				if err != nil {
					return fmt.Errorf("%s:%d: ensures: %v", c.File, c.Line, err)
				}
				props := fc.Props
				if len(c.Props) > 0 {
					props = c.Props
				}
				o := g.oblige("ensures", fr.oname("ensures", lbl), lbl, props, r.reach, t, c.Src, fn.Pos())
				fr.addModelValues(o, env)
			}
			if err := fr.frameObligations(r.st, r.reach, entryEnv, !(fc.ModSet && !fc.ModAll)); err != nil {
				return err
			}
		}
		return nil
	}
	exit := fr.mergeStates(conds, sts)
	nres := fn.Signature.Results().Len()
	results := make([]Val, nres)
	for i := 0; i < nres; i++ {
		var ts []string
		bad := ""
		for _, r := range fr.rets {
			ts = append(ts, r.results[i].T)
			if r.results[i].Loc != nil && r.results[i].T == "" {
				bad = "symbolic address returned"
			}
		}
		rt := fn.Signature.Results().At(i).Type()
		srt := g.sorts.SortOf(rt)
		results[i] = Val{T: g.define(fmt.Sprintf("result%d", i), srt, mergeTerms(conds, ts)), Go: rt, Sort: srt, Bad: bad}
	}
	env := fr.envAt(exit, nil, 0)
	env.lookup = func(name string) (Val, bool) {
		for _, p := range fn.Params {
			if p.Name() == name {
				return fr.vals[p], true
			}
		}
		for _, fv := range fn.FreeVars {
			if fv.Name() == name {
				v := fr.vals[fv]
				if pt, ok := fv.Type().Underlying().(*types.Pointer); ok {
					return g.loadPtr(exit, v, pt.Elem()), true
				}
				return v, true
			}
		}
		if v, ok := fr.letVals[name]; ok {
			return v, true
		}
		return Val{}, false
	}
	bindResults(env.vars, fn.Signature, results)
	g.replay = fr.buildReplayPlan(exit, results)
	g.curEnv = func() *Env { return env }
	for i, c := range fc.Ensures {
		t, err := env.EvalBool(c.E)
		if err != nil {
			return fmt.Errorf("%s:%d: ensures: %v", c.File, c.Line, err)
		}
		lbl := c.Label
		if lbl == "" {
			lbl = fmt.Sprint(i + 1)
		}
		props := fc.Props
		if len(c.Props) > 0 {
			props = c.Props
		}
		if c.Assumed {
			g.trusted[fmt.Sprintf("assumed postcondition [%s] of %s: %s", lbl, shortCallee(fc.Key), c.Src)] = true
			continue
		}
		o := g.oblige("ensures", fr.oname("ensures", lbl), lbl, props, exitReach, t, c.Src, fn.Pos())
		fr.addModelValues(o, env)
	}
	// frame
	if fc.ModSet && !fc.ModAll {
		if err := fr.frameObligations(exit, exitReach, entryEnv, false); err != nil {
			return err
		}
	} else {
		// `modifies all` (or no clause): callers keep ghost variables across the call, so those not listed must be unchanged
		if err := fr.frameObligations(exit, exitReach, entryEnv, true); err != nil {
			return err
		}
	}
	return nil
}

func bindResults(vars map[string]Val, sig *types.Signature, results []Val) {
	for i, r := range results {
		vars[fmt.Sprintf("result%d", i)] = r
		if n := sig.Results().At(i).Name(); n != "" && n != "_" {
			vars[n] = r
		}
	}
	if len(results) >= 1 {
		vars["result"] = results[0]
	}
}

func (fr *Frame) addModelValues(o *Oblig, env *Env) {
	for _, p := range fr.fn.Params {
		v := fr.vals[p]
		if v.T != "" {
			o.Values = append(o.Values, v.T)
			o.VNames = append(o.VNames, p.Name())
		}
	}
}

// frameObligations: every heap that differs between entry and exit differs only at declared locations or fresh objects.
func (fr *Frame) frameObligations(exit *State, reach string, entryEnv *Env, ghostsOnly bool) error {
	g := fr.g
	fc := fr.fc
	mods := map[string][][]string{} // heap -> list of index tuples (prefixes) that may change
	whole := map[string]bool{}
	for _, m := range fc.Modifies {
		locs, err := entryEnv.evalModLocs(m)
		if err != nil {
			return fmt.Errorf("%s: modifies: %v", fc.File, err)
		}
		for _, ml := range locs {
			if ml.whole || g.ghost[ml.l.Heap] {
				whole[ml.l.Heap] = true
				continue
			}
			mods[ml.l.Heap] = append(mods[ml.l.Heap], ml.l.Idx)
		}
	}
	alloc0 := g.heapGet(g.entry, "Alloc")
	if ghostsOnly {
		for _, k := range sortedKeys(exit.h) {
			if !g.ghost[k] || whole[k] || len(mods[k]) > 0 {
				continue
			}
			now, was := exit.h[k], g.heapGet(g.entry, k)
			if now == was {
				continue
			}
			g.oblige("frame", fr.oname("frame", k), "frame", fr.props, reach, sEq(now, was), "ghost variable "+k+" is not in the modifies clause", fr.fn.Pos())
		}
		return nil
	}
	if exit.epoch != g.entry.epoch {
		g.oblige("frame", fr.oname("frame", "*"), "frame", fr.props, reach, "false", "an unmodelled callee may have written any heap location", fr.fn.Pos())
		return nil
	}
	for _, k := range sortedKeys(exit.h) {
		if k == "Alloc" || whole[k] || g.immutableHeap(k) || strings.HasPrefix(k, "Local:") || k == "Elems:interface{}" {
			// (Elems:interface{}: the argument arrays of variadic logger/format calls — fresh and dead; exempt from framing)
			continue // (address-taken local variables of the function itself are not part of the caller-visible state)
		}
		now := exit.h[k]
		was := g.heapGet(g.entry, k)
		if now == was {
			continue
		}
		srt := g.heapSort(k)
		var cond string
		if !strings.HasPrefix(srt, "(Array ") || g.ghost[k] || strings.HasPrefix(k, "G:") || strings.HasPrefix(k, "Local:") {
			// scalar heap (global, ghost or local variable): compared as a whole
			if len(mods[k]) > 0 {
				continue
			}
			cond = sEq(now, was)
		} else {
			var excl []string
			for _, idx := range mods[k] {
				if len(idx) == 0 {
					excl = append(excl, "true")
					continue
				}
				excl = append(excl, app("=", "r!", idx[0]))
			}
			// fresh objects are exempt; for Elems with two-level modifies (base, index) compare per element
			body := app("=", app("select", now, "r!"), app("select", was, "r!"))
			var twoLevel []string
			for _, idx := range mods[k] {
				if len(idx) == 2 {
					twoLevel = append(twoLevel, sAnd(app("=", "r!", idx[0]), app("=", "i!", idx[1])))
				}
			}
			if len(twoLevel) > 0 {
				// (forall r,i: r old and (r,i) not declared => now[r][i] == was[r][i])
				var excl1 []string
				for _, idx := range mods[k] {
					if len(idx) == 1 {
						excl1 = append(excl1, app("=", "r!", idx[0]))
					}
				}
				cond = fmt.Sprintf("(forall ((r! Int) (i! Int)) (=> (and %s (not %s) (not %s)) (= (select (select %s r!) i!) (select (select %s r!) i!))))",
					oldObj("r!", alloc0), sOr(excl1...), sOr(twoLevel...), now, was)
			} else {
				cond = fmt.Sprintf("(forall ((r! Int)) (=> (and %s (not %s)) %s))", oldObj("r!", alloc0), sOr(excl...), body)
			}
		}
		g.oblige("frame", fr.oname("frame", k), "frame", fr.props, reach, cond, "modifies clause: only declared locations of "+k+" change", fr.fn.Pos())
	}
	return nil
}

// oldObj: r denotes an object that existed at function entry — an allocated reference below the entry allocation
// counter, or the (negative) derived reference of an array embedded in such an object.
func oldObj(r, alloc0 string) string {
	return fmt.Sprintf("(or (and (>= %s 0) (< %s %s)) (and (< %s 0) (< (fa.obj %s) %s)))", r, r, alloc0, r, r, alloc0)
}

// evalModLoc evaluates a modifies-clause expression to a location.
func (e *Env) evalModLoc(x Expr) (l *Loc, whole bool, err error) {
	defer func() {
		if r := recover(); r != nil {
			if ee, ok := r.(evalErr); ok {
				err = ee
				return
			}
			panic(r)
		}
	}()
	g := e.g
	switch x := x.(type) {
	case *ESel:
		if id, ok := x.X.(*EName); ok {
			if _, isVar := e.tryName(id.Name); !isVar {
				if pkg := g.P.findPackage(e.pkg, id.Name); pkg != nil {
					obj := pkg.Scope().Lookup(x.Name)
					if v, ok := obj.(*types.Var); ok {
						sp := g.P.ssaProg.Package(v.Pkg())
						gl := sp.Members[v.Name()].(*ssa.Global)
						return &Loc{Heap: g.globalHeap(gl), T: v.Type()}, false, nil
					}
				}
			}
		}
		var base Val
		if inner, isSel := x.X.(*ESel); isSel {
			// p.s.f with s an in-line struct: the base is itself a location
			if il, _, ierr := e.evalModLoc(inner); ierr == nil && il != nil && il.T != nil {
				if _, isStruct := il.T.Underlying().(*types.Struct); isStruct {
					base = Val{Loc: il, Go: types.NewPointer(il.T), Sort: SInt}
				}
			}
		}
		if base.Go == nil {
			base = e.eval(x.X)
		}
		if base.Go == nil {
			efail("modifies: field of non-Go value")
		}
		if base.Loc != nil {
			// fields of an in-line struct location
			su, ok := base.Loc.T.Underlying().(*types.Struct)
			if !ok {
				efail("modifies: %s is not a struct", exprString(x.X))
			}
			for i := 0; i < su.NumFields(); i++ {
				if su.Field(i).Name() == x.Name {
					fl := g.fieldLoc(base, i)
					return fl.Loc, false, nil
				}
			}
			efail("modifies: no field %s", x.Name)
		}
		t := base.Go
		obj, path, _ := types.LookupFieldOrMethod(t, true, pkgOfType(t), x.Name)
		if obj == nil {
			efail("modifies: no field %s", x.Name)
		}
		cur := base
		// a struct VALUE cannot be the base of a location
		if _, isPtr := cur.Go.Underlying().(*types.Pointer); !isPtr && cur.Loc == nil {
			efail("modifies: %s is not addressable (field of a struct value)", exprString(x))
		}
		for i, idx := range path {
			fl := g.fieldLoc(cur, idx)
			if i == len(path)-1 {
				if fl.Loc != nil {
					return fl.Loc, false, nil
				}
				// array field out of line
				at := fl.Go.Underlying().(*types.Pointer).Elem().Underlying().(*types.Array)
				return &Loc{Heap: g.elemsHeap(at.Elem()), Idx: []string{fl.T}, T: at}, false, nil
			}
			// intermediate step: an in-line struct stays a location, a pointer field is followed
			if fl.Loc != nil {
				if _, isStruct := fl.Loc.T.Underlying().(*types.Struct); isStruct {
					cur = fl
					continue
				}
				cur = g.loadLoc(e.st, fl.Loc)
				continue
			}
			efail("modifies: cannot step through array field in %s", exprString(x))
		}
	case *ECall:
		name := ""
		if id, ok := x.Fun.(*EName); ok {
			name = id.Name
		}
		switch name {
		case "big":
			v := e.eval(x.Args[0])
			return &Loc{Heap: g.bigHeap(), Idx: []string{v.T}}, false, nil
		case "elems":
			v := e.eval(x.Args[0])
			if v.Go != nil {
				switch u := v.Go.Underlying().(type) {
				case *types.Slice:
					return &Loc{Heap: g.elemsHeap(u.Elem()), Idx: []string{app("sl.base", v.T)}}, false, nil
				case *types.Pointer:
					if a, ok := u.Elem().Underlying().(*types.Array); ok {
						return &Loc{Heap: g.elemsHeap(a.Elem()), Idx: []string{v.T}}, false, nil
					}
				}
			}
			efail("modifies elems(x): x must be a slice or pointer to array")
		case "mapof":
			v := e.eval(x.Args[0])
			if mt, ok := v.Go.Underlying().(*types.Map); ok {
				dom, _, _ := g.mapHeaps(mt)
				return &Loc{Heap: dom, Idx: []string{v.T}}, false, nil
			}
		case "all":
			// all(T.f): the whole heap of a field, all(big): all big ints
			if len(x.Args) == 1 {
				if id, ok := x.Args[0].(*EName); ok && id.Name == "big" {
					return &Loc{Heap: g.bigHeap()}, true, nil
				}
				if id, ok := x.Args[0].(*EName); ok {
					if gv, ok := g.P.db.GhostVars[id.Name]; ok {
						v := e.ghostVal(gv)
						_ = v
						return &Loc{Heap: "Ghost:" + gv.Name}, true, nil
					}
				}
				if sel, ok := x.Args[0].(*ESel); ok {
					// Type.field
					tname := exprString(sel.X)
					_, gt := e.resolveType(tname)
					if gt != nil {
						if su, ok := gt.Underlying().(*types.Struct); ok {
							for i := 0; i < su.NumFields(); i++ {
								if su.Field(i).Name() == sel.Name {
									if at, isArr := su.Field(i).Type().Underlying().(*types.Array); isArr {
										return &Loc{Heap: g.elemsHeap(at.Elem())}, true, nil
									}
									h, _ := g.fieldHeap(gt, i)
									return &Loc{Heap: h}, true, nil
								}
							}
						}
					}
				}
				if call, ok := x.Args[0].(*ECall); ok {
					if id, ok := call.Fun.(*EName); ok && id.Name == "elems" {
						_, gt := e.resolveType(exprString(call.Args[0]))
						if gt != nil {
							return &Loc{Heap: g.elemsHeap(gt)}, true, nil
						}
					}
				}
			}
			efail("modifies all(…): unsupported argument")
		}
	case *EIndex:
		v := e.eval(x.X)
		i := e.eval(x.I)
		if v.Go != nil {
			switch u := v.Go.Underlying().(type) {
			case *types.Slice:
				return &Loc{Heap: g.elemsHeap(u.Elem()), Idx: []string{app("sl.base", v.T), app("+", app("sl.off", v.T), i.T)}, T: u.Elem()}, false, nil
			case *types.Map:
				// a map entry: both domain and value heaps — treat the whole map object as modified
				dom, _, _ := g.mapHeaps(u)
				return &Loc{Heap: dom, Idx: []string{v.T}}, false, nil
			}
		}
	case *EName:
		if gv, ok := g.P.db.GhostVars[x.Name]; ok {
			e.ghostVal(gv)
			return &Loc{Heap: "Ghost:" + gv.Name}, false, nil
		}
		if v, ok := e.tryName(x.Name); ok && v.Loc != nil {
			return v.Loc, false, nil
		}
	case *EUn:
		if x.Op == "*" {
			v := e.eval(x.X)
			if v.Loc != nil {
				return v.Loc, false, nil
			}
			if pt, ok := v.Go.Underlying().(*types.Pointer); ok {
				if isBigInt(pt.Elem()) {
					return &Loc{Heap: g.bigHeap(), Idx: []string{v.T}}, false, nil
				}
				if _, isS := pt.Elem().Underlying().(*types.Struct); !isS {
					return &Loc{Heap: g.cellHeap(pt.Elem()), Idx: []string{v.T}, T: pt.Elem()}, false, nil
				}
			}
		}
	}
	efail("unsupported modifies target %s", exprString(x))
	return nil, false, nil
}

func exprString(x Expr) string {
	switch x := x.(type) {
	case *EName:
		return x.Name
	case *ESel:
		return exprString(x.X) + "." + x.Name
	case *EUn:
		return x.Op + exprString(x.X)
	case *ECall:
		var as []string
		for _, a := range x.Args {
			as = append(as, exprString(a))
		}
		return exprString(x.Fun) + "(" + strings.Join(as, ", ") + ")"
	case *EIndex:
		return exprString(x.X) + "[" + exprString(x.I) + "]"
	case *ENum:
		return x.V.String()
	}
	return fmt.Sprintf("%T", x)
}
