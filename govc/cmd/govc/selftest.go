package main

func cmdSelftest(args []string) int { return 0 }

func tryReplay(o checkOpts, r *ObligResult, p *Prog, base string, model map[string]string) (bool, string, string) {
	return false, "", ""
}
