package main

import (
	"encoding/json"
	"flag"
	"fmt"
	"os"
	"path/filepath"
	"sort"
	"strings"
	"sync"
	"time"
)

// Mutant: an in-memory edit of one repository file (applied through packages.Config.Overlay, no copy of the
// repository is made). expect: substring of an obligation name that must fail, or "pass" for harmless edits.
type Mutant struct {
	Name    string `json:"name"`
	File    string `json:"file"`
	Find    string `json:"find"`
	Replace string `json:"replace"`
	Expect  string `json:"expect"`
	Why     string `json:"why"`
	Edits   []struct {
		File    string `json:"file"`
		Find    string `json:"find"`
		Replace string `json:"replace"`
	} `json:"edits"`
}

var selftestReplay bool

func cmdSelftest(args []string) int {
	fs := flag.NewFlagSet("selftest", flag.ExitOnError)
	repo := fs.String("repo", "/repo", "")
	verif := fs.String("verif", "/verif", "")
	par := fs.Int("j", 4, "parallel mutants")
	budget := fs.Int("budget", 0, "seconds after which no further mutant is started (0 = no limit); skipped mutants are counted in the summary")
	fs.BoolVar(&selftestReplay, "replay", false, "also replay counterexamples of killed mutants against the (mutated) real code")
	fs.Parse(args)
	var props []string
	if fs.NArg() > 0 {
		props = fs.Args()
	} else {
		ds, _ := filepath.Glob(filepath.Join(*verif, "mutants", "C*"))
		for _, d := range ds {
			props = append(props, filepath.Base(d))
		}
	}
	sort.Strings(props)
	bad := 0
	total := 0
	skipped := 0
	t0 := time.Now()
	var mu sync.Mutex
	for _, prop := range props {
		files, _ := filepath.Glob(filepath.Join(*verif, "mutants", prop, "*.json"))
		sort.Strings(files)
		propTotal, propBad := 0, 0
		var survived []string
		var wg sync.WaitGroup
		sem := make(chan struct{}, *par)
		propSkipped := 0
		for _, f := range files {
			f := f
			if *budget > 0 && time.Since(t0).Seconds() > float64(*budget) {
				skipped++
				propSkipped++
				continue
			}
			wg.Add(1)
			sem <- struct{}{}
			go func() {
				defer wg.Done()
				defer func() { <-sem }()
				ok, msg := runMutant(*repo, *verif, prop, f)
				mu.Lock()
				total++
				propTotal++
				if !ok {
					bad++
					propBad++
					survived = append(survived, filepath.Base(f)+": "+msg)
				}
				status := "ok  "
				if !ok {
					status = "FAIL"
				}
				fmt.Printf("%s %s %s: %s\n", status, prop, filepath.Base(f), msg)
				mu.Unlock()
			}()
		}
		wg.Wait()
		writeJSON(filepath.Join(*verif, "out", "_selftest", prop+".summary.json"), map[string]interface{}{"total": propTotal, "unexpected": propBad, "skipped_time_budget": propSkipped, "details": survived})
	}
	if skipped > 0 {
		fmt.Printf("selftest: %d mutants, %d unexpected, %d not run (time budget of %d s)\n", total, bad, skipped, *budget)
	} else {
		fmt.Printf("selftest: %d mutants, %d unexpected\n", total, bad)
	}
	if bad > 0 {
		return 1
	}
	return 0
}

func runMutant(repo, verif, prop, file string) (bool, string) {
	data, err := os.ReadFile(file)
	if err != nil {
		return false, err.Error()
	}
	var m Mutant
	if err := json.Unmarshal(data, &m); err != nil {
		return false, err.Error()
	}
	overlay := map[string][]byte{}
	apply := func(f, find, repl string) error {
		path := filepath.Join(repo, f)
		src, ok := overlay[path]
		if !ok {
			src, err = os.ReadFile(path)
			if err != nil {
				return err
			}
		}
		if strings.Count(string(src), find) != 1 {
			return fmt.Errorf("pattern occurs %d times in %s (want exactly 1)", strings.Count(string(src), find), f)
		}
		overlay[path] = []byte(strings.Replace(string(src), find, repl, 1))
		return nil
	}
	if m.File != "" {
		if err := apply(m.File, m.Find, m.Replace); err != nil {
			return false, "mutant does not apply: " + err.Error()
		}
	}
	for _, e := range m.Edits {
		if err := apply(e.File, e.Find, e.Replace); err != nil {
			return false, "mutant does not apply: " + err.Error()
		}
	}
	tag := strings.TrimSuffix(filepath.Base(file), ".json")
	out := runCheck(checkOpts{prop: prop, tier: "quick", repo: repo, verif: verif, overlay: overlay, quiet: true, noEvidence: true, workers: 4, noReplay: !selftestReplay, mutantTag: tag})
	ok, msg := judgeMutant(m, out)
	if ok {
		// the scripts of an expected outcome are of no further use (a corpus run would otherwise leave gigabytes behind)
		os.RemoveAll(filepath.Join(verif, "out", "_selftest", prop+"-"+tag))
		os.RemoveAll(filepath.Join(verif, "out", "_selftest", "replay-"+prop+"-"+tag))
	}
	return ok, msg
}

func judgeMutant(m Mutant, out *CheckOutcome) (bool, string) {
	var failed []string
	for _, r := range out.Results {
		if !r.OK {
			failed = append(failed, r.O.Name)
		}
	}
	for _, v := range out.Violations {
		if strings.Contains(v, "not generated") || !strings.Contains(v, "obligation=") {
			continue
		}
	}
	if m.Expect == "pass" {
		if out.Exit == 0 {
			return true, "harmless edit accepted"
		}
		return false, fmt.Sprintf("harmless edit raised an alarm (exit %d): %v %v", out.Exit, failed, out.EngineErrs)
	}
	if out.Exit == 2 && len(out.Violations) == 0 {
		return false, fmt.Sprintf("engine error instead of violation: %v", out.EngineErrs)
	}
	for _, v := range out.Violations {
		if strings.Contains(v, m.Expect) {
			return true, fmt.Sprintf("killed by %s (%d obligations failed)", m.Expect, len(out.Violations))
		}
	}
	if len(out.Violations) > 0 {
		return false, fmt.Sprintf("killed, but not by the expected obligation %q: %v", m.Expect, failed)
	}
	return false, "SURVIVED (no obligation failed)"
}

