package main

import (
	"fmt"
	"go/types"
	"math/big"
	"strings"

	"golang.org/x/tools/go/ssa"
)

type bigInt = big.Int

var bigOne = big.NewInt(1)

const maxInlineDepth = 3
const maxInlineInstrs = 120

// call translates a call instruction.
func (fr *Frame) call(in ssa.Instruction, c *ssa.CallCommon, st *State, reach string) Val {
	g := fr.g
	var rt types.Type
	if v, ok := in.(ssa.Value); ok {
		rt = v.Type()
	} else {
		rt = c.Signature().Results()
	}
	if b, ok := c.Value.(*ssa.Builtin); ok && !c.IsInvoke() {
		return fr.builtin(b, c, rt, st, reach, in)
	}
	name := calleeName(c)
	var args []Val
	var recv *Val
	var callee *ssa.Function
	if c.IsInvoke() {
		r := fr.val(c.Value)
		r.Go = c.Value.Type()
		recv = &r
	} else {
		callee = c.StaticCallee()
		if callee == nil {
			fv := fr.val(c.Value)
			if fv.Fn != nil {
				callee = fv.Fn
				name = callee.String()
				// closure: bindings are passed as free variables
			}
		}
	}
	for _, a := range c.Args {
		args = append(args, fr.val(a))
	}
	fr.callOrd[name]++
	ord := fr.callOrd[name]
	short := shortCallee(name)

	// 1. contract
	if fc := g.P.db.Lookup(name, g.prop); fc != nil {
		var sig *types.Signature
		if c.IsInvoke() {
			sig = c.Method.Type().(*types.Signature)
		} else if callee != nil {
			sig = callee.Signature
		} else {
			sig = c.Signature()
		}
		return fr.applyContract(fc, name, short, ord, sig, recv, args, rt, st, reach, in, callee)
	}
	// 2. pure function-typed parameter of the function under contract
	if callee == nil && !c.IsInvoke() {
		if p, ok := c.Value.(*ssa.Parameter); ok && fr.fc != nil {
			for _, pa := range fr.fc.PureArgs {
				if pa == p.Name() {
					sig := p.Type().Underlying().(*types.Signature)
					return g.applyPure(fr.val(p), sig, args)
				}
			}
		}
	}
	// 3. effect free
	if g.effectFree(name) {
		r := fr.havocVal(rt, "ret."+short, st)
		if isErrorsNew(name) {
			g.assume(app(">", r.T, "0"))
		}
		return r
	}
	// 4. inline
	if callee != nil && fr.canInline(callee) {
		fv := Val{}
		if !c.IsInvoke() && c.StaticCallee() == nil {
			fv = fr.val(c.Value)
		} else if mc, ok := c.Value.(*ssa.MakeClosure); ok {
			fv = fr.val(mc)
		}
		if r, ok := fr.inline(callee, args, fv.Bind, st, reach, fmt.Sprintf("%s#%d.", short, ord)); ok {
			return r
		}
	}
	// 5. unknown callee: havoc everything it may reach
	g.note("%s: call to %s without contract: heap and result havocked", fr.fn, name)
	for _, a := range args {
		if a.Loc != nil {
			fr.escape(a, st)
		}
		for _, b := range a.Bind {
			if b.Loc != nil {
				fr.escape(b, st)
			}
		}
	}
	g.havocAll(st)
	return fr.havocVal(rt, "ret."+short, st)
}

func isErrorsNew(name string) bool { return name == "errors.New" || name == "fmt.Errorf" }

func shortCallee(name string) string {
	s := strings.ReplaceAll(name, modPath+"/", "")
	return s
}

func (fr *Frame) canInline(callee *ssa.Function) bool {
	g := fr.g
	if len(callee.Blocks) == 0 || fr.depth >= maxInlineDepth {
		return false
	}
	if callee.Recover != nil {
		return false
	}
	for _, f := range g.inlineStk {
		if f == callee {
			return false
		}
	}
	if callee == g.root {
		return false
	}
	n := 0
	for _, b := range callee.Blocks {
		n += len(b.Instrs)
		for _, s := range b.Succs {
			if s.Dominates(b) {
				return false // loop
			}
		}
		for _, in := range b.Instrs {
			switch in.(type) {
			case *ssa.Defer, *ssa.Go, *ssa.Select:
				return false
			}
		}
	}
	return n <= maxInlineInstrs
}

func (fr *Frame) inline(callee *ssa.Function, args []Val, binds []Val, st *State, reach string, prefix string) (Val, bool) {
	g := fr.g
	if len(callee.FreeVars) != len(binds) {
		return Val{}, false
	}
	sub := g.newFrame(callee, nil, fr.depth+1, fr.prefix+prefix)
	sub.panics = fr.panics
	sub.props = fr.props
	for i, p := range callee.Params {
		if i < len(args) {
			sub.vals[p] = args[i]
		}
	}
	for i, fv := range callee.FreeVars {
		sub.vals[fv] = binds[i]
	}
	g.inlineStk = append(g.inlineStk, callee)
	defer func() { g.inlineStk = g.inlineStk[:len(g.inlineStk)-1] }()
	work := st.clone()
	if err := sub.run(work, reach); err != nil {
		g.note("%s: inlining %s failed: %v", fr.fn, callee, err)
		return Val{}, false
	}
	for _, d := range sub.deferred {
		fr.deferred = append(fr.deferred, d)
	}
	if len(sub.rets) == 0 {
		// callee never returns (panics / exits): nothing reachable afterwards
		g.assume(sNot(reach))
		return fr.havocVal(callee.Signature.Results(), "noret", st), true
	}
	var conds []string
	var sts []*State
	for _, r := range sub.rets {
		conds = append(conds, r.reach)
		sts = append(sts, r.st)
	}
	// paths of the callee that end in a panic drop out: reach after the call is the disjunction of the returns
	g.assume(sImp(reach, sOr(conds...)))
	merged := sub.mergeStates(conds, sts)
	st.h = merged.h
	st.epoch = merged.epoch
	nres := callee.Signature.Results().Len()
	var res []Val
	for i := 0; i < nres; i++ {
		rt := callee.Signature.Results().At(i).Type()
		srt := g.sorts.SortOf(rt)
		var ts []string
		var loc *Loc
		var fn0 *ssa.Function
		for j, r := range sub.rets {
			ts = append(ts, r.results[i].T)
			if r.results[i].Loc != nil && r.results[i].T == "" {
				loc = r.results[i].Loc
			}
			if j == 0 {
				fn0 = r.results[i].Fn
			} else if fn0 != r.results[i].Fn {
				fn0 = nil
			}
		}
		if loc != nil {
			if len(sub.rets) == 1 {
				res = append(res, sub.rets[0].results[i])
				continue
			}
			hv := fr.havocVal(rt, "inl.addr", st)
			hv.Bad = "symbolic address returned on several paths"
			res = append(res, hv)
			continue
		}
		v := Val{T: g.define("inl."+callee.Name(), srt, mergeTerms(conds, ts)), Go: rt, Sort: srt, Fn: fn0}
		if len(sub.rets) == 1 {
			v.Bind = sub.rets[0].results[i].Bind
			v.Tup = sub.rets[0].results[i].Tup
		}
		res = append(res, v)
	}
	switch nres {
	case 0:
		return Val{}, true
	case 1:
		return res[0], true
	}
	return Val{Go: callee.Signature.Results(), Tup: res}, true
}

// pureInline evaluates a call of a known, loop-free, side-effect-free closure/function as a pure term in state st
// (used for function values applied inside contract expressions, possibly under quantifiers).
func (g *Gen) pureInline(f Val, args []Val, st *State) (res Val, ok bool) {
	callee := f.Fn
	if callee == nil || len(callee.Blocks) == 0 || len(callee.FreeVars) != len(f.Bind) || callee.Signature.Results().Len() != 1 {
		return Val{}, false
	}
	for _, b := range callee.Blocks {
		for _, s := range b.Succs {
			if s.Dominates(b) {
				return Val{}, false
			}
		}
		for _, in := range b.Instrs {
			switch in.(type) {
			case *ssa.Store, *ssa.MapUpdate, *ssa.Defer, *ssa.Go, *ssa.Select, *ssa.Send, *ssa.Alloc, *ssa.MakeSlice, *ssa.MakeMap, *ssa.Panic:
				return Val{}, false
			}
		}
	}
	if len(g.inlineStk) > 6 {
		return Val{}, false
	}
	g.pure++
	savedNotes := len(g.notes)
	defer func() {
		g.pure--
		if r := recover(); r != nil {
			if _, isEval := r.(evalErr); isEval {
				g.notes = g.notes[:savedNotes]
				res, ok = Val{}, false
				return
			}
			panic(r)
		}
	}()
	sub := g.newFrame(callee, nil, 1, "pure.")
	for i, p := range callee.Params {
		if i < len(args) {
			a := args[i]
			a.Go = p.Type()
			sub.vals[p] = a
		}
	}
	for i, fv := range callee.FreeVars {
		sub.vals[fv] = f.Bind[i]
	}
	g.inlineStk = append(g.inlineStk, callee)
	defer func() { g.inlineStk = g.inlineStk[:len(g.inlineStk)-1] }()
	work := st.clone()
	if err := sub.run(work, "true"); err != nil || len(sub.rets) == 0 {
		return Val{}, false
	}
	// the closure must not have changed the state
	for _, r := range sub.rets {
		if r.st.epoch != st.epoch {
			return Val{}, false
		}
	}
	var conds, ts []string
	for _, r := range sub.rets {
		if r.results[0].T == "" {
			return Val{}, false
		}
		conds = append(conds, r.reach)
		ts = append(ts, r.results[0].T)
	}
	rt := callee.Signature.Results().At(0).Type()
	return Val{T: mergeTerms(conds, ts), Go: rt, Sort: g.sorts.SortOf(rt)}, true
}

// bindParams builds the variable map for evaluating a callee's contract at a call site.
func bindParams(sig *types.Signature, recv *Val, args []Val, isMethodValue bool) map[string]Val {
	vars := map[string]Val{}
	i := 0
	if recv != nil {
		vars["recv"] = *recv
		vars["self"] = *recv
	} else if sig.Recv() != nil && len(args) > 0 {
		r := args[0]
		if r.Go == nil {
			r.Go = sig.Recv().Type()
		}
		vars["recv"] = r
		vars["self"] = r
		if n := sig.Recv().Name(); n != "" && n != "_" {
			vars[n] = r
		}
		i = 1
	}
	for k := 0; k < sig.Params().Len() && i < len(args); k, i = k+1, i+1 {
		p := sig.Params().At(k)
		a := args[i]
		if a.Go == nil {
			a.Go = p.Type()
		}
		vars[fmt.Sprintf("arg%d", k)] = a
		if n := p.Name(); n != "" && n != "_" {
			vars[n] = a
		}
	}
	return vars
}

func (fr *Frame) applyContract(fc *FuncContract, name, short string, ord int, sig *types.Signature, recv *Val, args []Val, rt types.Type,
	st *State, reach string, in ssa.Instruction, callee *ssa.Function) Val {
	g := fr.g
	if fc.Trusted {
		g.trusted["contract "+short] = true
	}
	if fc.NoBody {
		g.trusted["assumed contract (nobody) "+short] = true
	}
	vars := bindParams(sig, recv, args, false)
	if ci, ok := in.(ssa.CallInstruction); ok && !ci.Common().IsInvoke() && ci.Common().StaticCallee() == nil {
		vars["callee"] = fr.val(ci.Common().Value) // the function value being called (dynamic:<Type> contracts)
	}
	// closures: free variables by name
	if callee != nil && len(callee.FreeVars) > 0 {
		if mc, ok := in.(*ssa.Call); ok {
			fv := fr.val(mc.Call.Value)
			for i, f := range callee.FreeVars {
				if i < len(fv.Bind) {
					b := fv.Bind[i]
					vars["&"+f.Name()] = b
					// the captured variable by name: read in whatever state the clause is evaluated in
					if pt, ok := f.Type().Underlying().(*types.Pointer); ok {
						if b.Loc != nil {
							vars[f.Name()] = Val{Loc: b.Loc, Go: pt.Elem(), Sort: g.sorts.SortOf(pt.Elem())}
						} else if b.T != "" {
							if _, isStruct := pt.Elem().Underlying().(*types.Struct); !isStruct {
								vars[f.Name()] = Val{Loc: &Loc{Heap: g.cellHeap(pt.Elem()), Idx: []string{b.T}, T: pt.Elem()}, Go: pt.Elem(), Sort: g.sorts.SortOf(pt.Elem())}
							}
						}
					} else {
						vars[f.Name()] = b
					}
				}
			}
		}
	}
	pkg := fr.fn.Pkg
	var tpkg *types.Package
	if fc.Pkg != "" {
		if pk, ok := g.P.pkgs[fc.Pkg]; ok {
			tpkg = pk.Types
		}
	}
	if tpkg == nil && pkg != nil {
		tpkg = pkg.Pkg
	}
	pre := st.clone()
	env := &Env{g: g, vars: vars, st: pre, old: pre, pkg: tpkg}
	for i, l := range fc.Lets {
		v, err := env.Eval(fc.LetE[i])
		if err != nil {
			panic(contractErr{fmt.Sprintf("contract of %s (%s:%d): let %s: %v", short, fc.File, fc.Line, l.Name, err)})
		}
		env.vars[l.Name] = v
	}
	for i, r := range fc.Requires {
		t, err := env.EvalBool(r.E)
		if err != nil {
			panic(contractErr{fmt.Sprintf("contract of %s (%s:%d): requires: %v", short, r.File, r.Line, err)})
		}
		lbl := r.Label
		if lbl == "" {
			lbl = fmt.Sprint(i + 1)
		}
		if !fr.panics && (fc.Trusted && strings.Contains(fc.File, "/specs/stdlib/") || strings.HasPrefix(lbl, "nonnil")) {
			// `requires [nonnil] …` clauses are panic conditions too
			// preconditions of library functions are their panic conditions: in `panics ignored` functions they are assumed
			g.assume(sImp(reach, t))
			continue
		}
		g.oblige("call-pre", fr.oname(fmt.Sprintf("call[%s#%d].requires", short, ord), lbl), lbl, fr.props, reach, t, r.Src, in.Pos())
	}
	// results
	var results []Val
	if tup, ok := rt.(*types.Tuple); ok {
		for i := 0; i < tup.Len(); i++ {
			results = append(results, fr.havocVal(tup.At(i).Type(), fmt.Sprintf("ret%d.%s", i, short), nil))
		}
	} else if rt != nil {
		results = append(results, fr.havocVal(rt, "ret."+short, nil))
	}
	bindResults(env.vars, sig, results)
	// effects
	if !fc.Pure {
		if fc.ModAll || !fc.ModSet {
			if !fc.ModSet {
				g.note("contract of %s has no modifies clause: treated as modifies all", short)
			}
			g.havocAll(st)
		}
		{
			for _, m := range fc.Modifies {
				locs, err := env.evalModLocs(m)
				if err != nil {
					panic(contractErr{fmt.Sprintf("contract of %s (%s:%d): modifies: %v", short, fc.File, fc.Line, err)})
				}
				for _, l := range locs {
					fr.havocLoc(st, l.l, l.whole)
				}
			}
		}
	}
	if fc.Opts["noalloc"] == "" {
		oa := g.heapGet(st, "Alloc")
		na := g.fresh("Alloc.after."+short, SInt)
		g.assume(app(">=", na, oa))
		st.h["Alloc"] = na
	}
	for _, r := range results {
		g.typeFacts(r, st)
	}
	post := &Env{g: g, vars: env.vars, st: st, old: pre, pkg: tpkg}
	for ci, c := range fc.Ensures {
		if c.Assumed {
			g.trusted[fmt.Sprintf("assumed postcondition [%s] of %s: %s", c.Label, short, c.Src)] = true
		}
		t, err := post.EvalBool(c.E)
		if err != nil {
			panic(contractErr{fmt.Sprintf("contract of %s (%s:%d): ensures: %v", short, c.File, c.Line, err)})
		}
		// a postcondition with a listed known finding is NOT a fact inside the finding's region: callers may use it
		// only outside (no region given: not at all)
		lbl := c.Label
		if lbl == "" {
			lbl = fmt.Sprint(ci + 1)
		}
		if region, listed := g.P.findingRegions[short+"#ensures["+lbl+"]"]; listed {
			if region == "" {
				continue
			}
			re, perr := parseExprString(region)
			if perr != nil {
				continue
			}
			rt, rerr := env.EvalBool(re)
			if rerr != nil {
				continue
			}
			g.assume(sImp(reach, sImp(sNot(rt), t)))
			continue
		}
		g.assume(sImp(reach, t))
	}
	switch len(results) {
	case 0:
		return Val{}
	case 1:
		if _, isTup := rt.(*types.Tuple); !isTup {
			return results[0]
		}
	}
	return Val{Go: rt, Tup: results}
}

func (g *Gen) abstractSlices() bool { return g.fc != nil && g.fc.Opts["abstract-slices"] != "" }

// contractErr: a callee's contract cannot be evaluated at a call site (a contract bug, never silently havocked).
type contractErr struct{ msg string }

type modLoc struct {
	l     *Loc
	whole bool
}

func (e *Env) evalModLocs(x Expr) ([]modLoc, error) {
	l, whole, err := e.evalModLoc(x)
	if err != nil {
		return nil, err
	}
	out := []modLoc{{l, whole}}
	if strings.HasPrefix(l.Heap, "MapDom:") {
		k := strings.TrimPrefix(l.Heap, "MapDom:")
		out = append(out, modLoc{&Loc{Heap: "MapVal:" + k, Idx: l.Idx}, whole}, modLoc{&Loc{Heap: "MapLen:" + k, Idx: l.Idx}, whole})
	}
	return out, nil
}

func (fr *Frame) havocLoc(st *State, l *Loc, whole bool) {
	g := fr.g
	if whole || len(l.Idx) == 0 {
		st.h[l.Heap] = g.fresh("mod."+l.Heap, g.heapSort(l.Heap))
		return
	}
	fv := g.fresh("mod", rootElemSort(g.heapSort(l.Heap), len(l.Idx)))
	g.storeLoc(st, &Loc{Heap: l.Heap, Idx: l.Idx}, fv)
}

// ---------------------------------------------------------------------------------------------
// Builtins
// ---------------------------------------------------------------------------------------------

func (fr *Frame) builtin(b *ssa.Builtin, c *ssa.CallCommon, rt types.Type, st *State, reach string, in ssa.Instruction) Val {
	g := fr.g
	var args []Val
	for _, a := range c.Args {
		args = append(args, fr.val(a))
	}
	switch b.Name() {
	case "len":
		t := c.Args[0].Type().Underlying()
		switch u := t.(type) {
		case *types.Slice:
			return g.goVal(slPart(args[0], 2), rt)
		case *types.Basic:
			return g.goVal(app("strlen", args[0].T), rt)
		case *types.Map:
			_, _, ln := g.mapHeaps(u)
			v := g.goVal(sIte(app("=", args[0].T, "0"), "0", app("select", g.heapGet(st, ln), args[0].T)), rt)
			g.assume(app(">=", app("select", g.heapGet(st, ln), args[0].T), "0"))
			return v
		case *types.Array:
			return g.goVal(fmt.Sprint(u.Len()), rt)
		case *types.Pointer:
			return g.goVal(fmt.Sprint(u.Elem().Underlying().(*types.Array).Len()), rt)
		case *types.Chan:
			return fr.havocVal(rt, "chanlen", st)
		}
	case "cap":
		if _, ok := c.Args[0].Type().Underlying().(*types.Slice); ok {
			return g.goVal(slPart(args[0], 3), rt)
		}
		return fr.havocVal(rt, "cap", st)
	case "append":
		return fr.appendOp(c, args, rt, st, reach)
	case "copy":
		return fr.copyOp(c, args, rt, st)
	case "delete":
		mt := c.Args[0].Type().Underlying().(*types.Map)
		fr.ghostAnchorsPre("delete", st, reach, in)
		g.mapDelete(st, mt, args[0].T, args[1].T)
		fr.ghostAnchors("delete", st, reach, in, Val{})
		return Val{}
	case "panic":
		return Val{}
	case "print", "println":
		return Val{}
	case "recover":
		return fr.havocVal(rt, "recover", st)
	case "min", "max":
		op := "minint"
		if b.Name() == "max" {
			op = "maxint"
		}
		t := args[0].T
		for _, a := range args[1:] {
			t = app(op, t, a.T)
		}
		return g.goVal(t, rt)
	case "close":
		return Val{}
	}
	efail("builtin %s", b.Name())
	return Val{}
}

func (fr *Frame) appendOp(c *ssa.CallCommon, args []Val, rt types.Type, st *State, reach string) Val {
	g := fr.g
	s := args[0]
	el := rt.Underlying().(*types.Slice).Elem()
	h := g.elemsHeap(el)
	add := args[1]
	var addLen string
	var addArr, addOff string
	if isString(c.Args[1].Type()) {
		addLen = app("strlen", add.T)
		addArr = app(g.declareUF("str2bytes", []string{SInt}, arrSort(SInt, SInt)), add.T)
		addOff = "0"
	} else {
		addLen = app("sl.len", add.T)
		addArr = app("select", g.heapGet(st, h), app("sl.base", add.T))
		addOff = app("sl.off", add.T)
	}
	if !isString(c.Args[1].Type()) {
		addLen = slPart(add, 2)
		addOff = slPart(add, 1)
		addArr = app("select", g.heapGet(st, h), slPart(add, 0))
	}
	if addLen == "1" {
		// append of a single element: quantifier-free. The fresh backing array (when capacity is exceeded) is modelled
		// as a copy of the whole old array at the same offset; cells outside [off, off+len] are unobservable.
		elem := app("select", addArr, addOff)
		heap := g.heapGet(st, h)
		base, off, ln, cp := slPart(s, 0), slPart(s, 1), slPart(s, 2), slPart(s, 3)
		oldArr := app("select", heap, base)
		newLen := simpArith("+", ln, "1")
		fits := g.define("app.fits", SBool, sAnd(app("<=", newLen, cp), sNot(app("=", base, "0"))))
		ref := fr.newRef(st)
		newCap := g.fresh("app.cap", SInt)
		g.assume(app(">=", newCap, newLen))
		narr := app("store", oldArr, app("+", off, ln), elem)
		target := g.define("app.base", SInt, sIte(fits, base, ref))
		g.heapSet(st, h, app("store", g.heapGet(st, h), target, narr))
		r := mkSlice(target, off, newLen, sIte(fits, cp, newCap))
		r.T = g.define("append", SSlice, r.T)
		r.Go = rt
		return r
	}
	addArr = g.define("app.src", arrSort(SInt, g.sorts.SortOf(el)), addArr)
	oldLen := app("sl.len", s.T)
	newLen := g.define("app.len", SInt, app("+", oldLen, addLen))
	fits := g.define("app.fits", SBool, sAnd(app("<=", newLen, app("sl.cap", s.T)), sNot(app("=", app("sl.base", s.T), "0"))))
	// in-place branch: elements written behind the old length of the same backing array
	heap := g.heapGet(st, h)
	oldArr := app("select", heap, app("sl.base", s.T))
	// fresh branch: new backing array holding old elements followed by the added ones
	ref := fr.newRef(st)
	newCap := g.fresh("app.cap", SInt)
	g.assume(app(">=", newCap, newLen))
	// destination array (content described by a quantified axiom over a fresh array symbol)
	dst := g.fresh("app.arr", arrSort(SInt, g.sorts.SortOf(el)))
	dstOff := g.bindConst("app.doff", SInt, sIte(fits, slPart(s, 1), "0"))
	srcArrOld := g.bindConst("app.old", arrSort(SInt, g.sorts.SortOf(el)), oldArr)
	oldArr = srcArrOld
	srcOffOld := g.bindConst("app.soff", SInt, slPart(s, 1))
	oldLen = g.bindConst("app.olen", SInt, slPart(s, 2))
	addOff = g.bindConst("app.aoff", SInt, addOff)
	addArr = g.bindConst("app.asrc", arrSort(SInt, g.sorts.SortOf(el)), addArr)
	if g.abstractSlices() {
		// opt abstract-slices: contents of multi-element appends are left unconstrained (sound, no quantifiers)
		target := sIte(fits, app("sl.base", s.T), ref)
		g.heapSet(st, h, app("store", heap, target, dst))
		res := sIte(fits, app("mkslice", app("sl.base", s.T), app("sl.off", s.T), newLen, app("sl.cap", s.T)), app("mkslice", ref, "0", newLen, newCap))
		return Val{T: g.define("append", SSlice, res), Go: rt, Sort: SSlice}
	}
	// (quantified over ABSOLUTE positions j of the destination array: patterns without arithmetic)
	g.assumeEngineQuant(fmt.Sprintf("(forall ((j! Int)) (! (=> (and (<= %s j!) (< j! (+ %s %s))) (= (select %s j!) (select %s (+ (- j! %s) %s)))) :pattern ((select %s j!))))",
		dstOff, dstOff, oldLen, dst, srcArrOld, dstOff, srcOffOld, dst))
	g.assumeEngineQuant(fmt.Sprintf("(forall ((j! Int)) (! (=> (and (<= (+ %s %s) j!) (< j! (+ %s %s %s))) (= (select %s j!) (select %s (+ (- j! (+ %s %s)) %s)))) :pattern ((select %s j!))))",
		dstOff, oldLen, dstOff, oldLen, addLen, dst, addArr, dstOff, oldLen, addOff, dst))
	// in place: everything outside [off+oldLen, off+newLen) unchanged
	g.assume(sImp(fits, fmt.Sprintf("(forall ((i! Int)) (! (=> (or (< i! (+ %s %s)) (>= i! (+ %s %s))) (= (select %s i!) (select %s i!))) :pattern ((select %s i!))))",
		app("sl.off", s.T), oldLen, app("sl.off", s.T), newLen, dst, oldArr, dst)))
	// single added element: give the direct equation too (helps the solvers)
	if n, ok := smallConst(addLen); ok && n == 1 {
		g.assume(app("=", app("select", dst, app("+", dstOff, oldLen)), app("select", addArr, addOff)))
	}
	target := sIte(fits, app("sl.base", s.T), ref)
	g.heapSet(st, h, app("store", heap, target, dst))
	res := sIte(fits, app("mkslice", app("sl.base", s.T), app("sl.off", s.T), newLen, app("sl.cap", s.T)), app("mkslice", ref, "0", newLen, newCap))
	return Val{T: g.define("append", SSlice, res), Go: rt, Sort: SSlice}
}

func (fr *Frame) copyOp(c *ssa.CallCommon, args []Val, rt types.Type, st *State) Val {
	g := fr.g
	dst, src := args[0], args[1]
	el := c.Args[0].Type().Underlying().(*types.Slice).Elem()
	h := g.elemsHeap(el)
	var srcLen, srcArr, srcOff string
	if isString(c.Args[1].Type()) {
		srcLen = app("strlen", src.T)
		srcArr = app(g.declareUF("str2bytes", []string{SInt}, arrSort(SInt, SInt)), src.T)
		srcOff = "0"
	} else {
		srcLen = slPart(src, 2)
		srcArr = app("select", g.heapGet(st, h), slPart(src, 0))
		srcOff = slPart(src, 1)
	}
	srcArr = g.define("copy.src", arrSort(SInt, g.sorts.SortOf(el)), srcArr)
	n := g.define("copy.n", SInt, app("minint", slPart(dst, 2), srcLen))
	heap := g.heapGet(st, h)
	oldArr := g.bindConst("copy.old", arrSort(SInt, g.sorts.SortOf(el)), app("select", heap, slPart(dst, 0)))
	na := g.fresh("copy.arr", arrSort(SInt, g.sorts.SortOf(el)))
	dOff := g.bindConst("copy.doff", SInt, slPart(dst, 1))
	srcOff = g.bindConst("copy.soff", SInt, srcOff)
	srcArr = g.bindConst("copy.sarr", arrSort(SInt, g.sorts.SortOf(el)), srcArr)
	n = g.bindConst("copy.len", SInt, n)
	if g.abstractSlices() {
		g.heapSet(st, h, sIte(app(">", n, "0"), app("store", heap, app("sl.base", dst.T), na), heap))
		return g.goVal(n, types.Typ[types.Int])
	}
	g.assumeEngineQuant(fmt.Sprintf("(forall ((j! Int)) (! (=> (and (<= %s j!) (< j! (+ %s %s))) (= (select %s j!) (select %s (+ (- j! %s) %s)))) :pattern ((select %s j!))))",
		dOff, dOff, n, na, srcArr, dOff, srcOff, na))
	g.assumeEngineQuant(fmt.Sprintf("(forall ((i! Int)) (! (=> (or (< i! %s) (>= i! (+ %s %s))) (= (select %s i!) (select %s i!))) :pattern ((select %s i!))))",
		dOff, dOff, n, na, oldArr, na))
	g.heapSet(st, h, sIte(app(">", n, "0"), app("store", heap, slPart(dst, 0), na), heap))
	return g.goVal(n, types.Typ[types.Int])
}

// ---------------------------------------------------------------------------------------------
// Write sets (for loop havoc)
// ---------------------------------------------------------------------------------------------

func (g *Gen) rootHeapOfAddr(fr *Frame, a ssa.Value) (string, bool) {
	switch x := a.(type) {
	case *ssa.FieldAddr:
		pt := x.X.Type().Underlying().(*types.Pointer)
		su := pt.Elem().Underlying().(*types.Struct)
		ft := su.Field(x.Field).Type()
		// nested in-line struct: the root is the outermost heap
		if inner, ok := x.X.(*ssa.FieldAddr); ok {
			ipt := inner.X.Type().Underlying().(*types.Pointer)
			isu := ipt.Elem().Underlying().(*types.Struct)
			if _, isStruct := isu.Field(inner.Field).Type().Underlying().(*types.Struct); isStruct {
				return g.rootHeapOfAddr(fr, inner)
			}
		}
		if ia, ok := x.X.(*ssa.IndexAddr); ok {
			return g.rootHeapOfAddr(fr, ia)
		}
		if at, isArr := ft.Underlying().(*types.Array); isArr {
			return g.elemsHeap(at.Elem()), true
		}
		h, _ := g.fieldHeap(pt.Elem(), x.Field)
		return h, true
	case *ssa.IndexAddr:
		switch u := x.X.Type().Underlying().(type) {
		case *types.Slice:
			return g.elemsHeap(u.Elem()), true
		case *types.Pointer:
			if inner, ok := x.X.(*ssa.FieldAddr); ok {
				ipt := inner.X.Type().Underlying().(*types.Pointer)
				if _, nested := inner.X.(*ssa.FieldAddr); nested {
					_ = ipt
					return g.rootHeapOfAddr(fr, inner)
				}
			}
			return g.elemsHeap(u.Elem().Underlying().(*types.Array).Elem()), true
		}
	case *ssa.Alloc:
		if fr != nil {
			if v, ok := fr.vals[x]; ok && v.Loc != nil {
				return v.Loc.Heap, true
			}
		}
		el := x.Type().Underlying().(*types.Pointer).Elem()
		switch u := el.Underlying().(type) {
		case *types.Struct:
			return "", false // whole struct store: several heaps; caller handles
		case *types.Array:
			return g.elemsHeap(u.Elem()), true
		}
		return g.cellHeap(el), true
	case *ssa.Global:
		return g.globalHeap(x), true
	case *ssa.Parameter, *ssa.FreeVar, *ssa.Phi, *ssa.Call, *ssa.Extract, *ssa.UnOp:
		el := a.Type().Underlying().(*types.Pointer).Elem()
		if isBigInt(el) {
			return "", false
		}
		switch u := el.Underlying().(type) {
		case *types.Struct:
			return "", false
		case *types.Array:
			return g.elemsHeap(u.Elem()), true
		}
		return g.cellHeap(el), true
	}
	return "", false
}

func (g *Gen) structHeaps(t types.Type, out *[]string, depth int) {
	su, ok := t.Underlying().(*types.Struct)
	if !ok || depth > 3 {
		return
	}
	for i := 0; i < su.NumFields(); i++ {
		ft := su.Field(i).Type()
		if at, isArr := ft.Underlying().(*types.Array); isArr {
			*out = append(*out, g.elemsHeap(at.Elem()))
			continue
		}
		h, _ := g.fieldHeap(t, i)
		*out = append(*out, h)
	}
}

// instrWrites returns the heaps an instruction may write (all=true: unknown).
func (g *Gen) instrWrites(fr *Frame, in ssa.Instruction, depth int) (ws []string, all bool) {
	switch x := in.(type) {
	case *ssa.Store:
		if h, ok := g.rootHeapOfAddr(fr, x.Addr); ok {
			return []string{h}, false
		}
		el := x.Addr.Type().Underlying().(*types.Pointer).Elem()
		if _, isS := el.Underlying().(*types.Struct); isS && !isBigInt(el) {
			g.structHeaps(el, &ws, 0)
			return ws, false
		}
		return nil, true
	case *ssa.MapUpdate:
		d, v, l := g.mapHeaps(x.Map.Type().Underlying().(*types.Map))
		return []string{d, v, l}, false
	case *ssa.Alloc:
		ws = []string{"Alloc"}
		el := x.Type().Underlying().(*types.Pointer).Elem()
		if isBigInt(el) {
			return append(ws, g.bigHeap()), false
		}
		switch u := el.Underlying().(type) {
		case *types.Struct:
			g.structHeaps(el, &ws, 0)
		case *types.Array:
			ws = append(ws, g.elemsHeap(u.Elem()))
		default:
			ws = append(ws, g.cellHeap(el))
		}
		return ws, false
	case *ssa.Next:
		if fr != nil {
			if it, ok := fr.vals[x.Iter]; ok && it.Loc != nil {
				return []string{it.Loc.Heap}, false
			}
		}
	case *ssa.MakeSlice:
		return []string{"Alloc", g.elemsHeap(x.Type().Underlying().(*types.Slice).Elem())}, false
	case *ssa.MakeMap:
		d, v, l := g.mapHeaps(x.Type().Underlying().(*types.Map))
		return []string{"Alloc", d, v, l}, false
	case *ssa.MakeChan:
		return []string{"Alloc"}, false
	case *ssa.Convert:
		if isString(x.X.Type()) {
			if sl, ok := x.Type().Underlying().(*types.Slice); ok {
				return []string{"Alloc", g.elemsHeap(sl.Elem())}, false
			}
		}
	case *ssa.Slice:
		if pt, ok := x.X.Type().Underlying().(*types.Pointer); ok {
			return []string{"Alloc", g.elemsHeap(pt.Elem().Underlying().(*types.Array).Elem())}, false
		}
	case ssa.CallInstruction:
		if _, isDefer := in.(*ssa.Defer); isDefer {
			return nil, false
		}
		if _, isGo := in.(*ssa.Go); isGo {
			return nil, false
		}
		c := x.Common()
		if b, ok := c.Value.(*ssa.Builtin); ok && !c.IsInvoke() {
			switch b.Name() {
			case "append":
				sl := c.Args[0].Type().Underlying().(*types.Slice)
				return []string{"Alloc", g.elemsHeap(sl.Elem())}, false
			case "copy":
				sl := c.Args[0].Type().Underlying().(*types.Slice)
				return []string{g.elemsHeap(sl.Elem())}, false
			case "delete":
				d, v, l := g.mapHeaps(c.Args[0].Type().Underlying().(*types.Map))
				return []string{d, v, l}, false
			}
			return nil, false
		}
		name := calleeName(c)
		if fc := g.P.db.Lookup(name, g.prop); fc != nil {
			ws = append(ws, "Alloc")
			// ghost updates anchored at this call in the caller's contract are handled by the caller
			if fc.Pure {
				return ws, false
			}
			if fc.ModAll || !fc.ModSet {
				return nil, true
			}
			for _, m := range fc.Modifies {
				hs, ok := g.modHeapNames(fc, m, c)
				if !ok {
					return nil, true
				}
				ws = append(ws, hs...)
			}
			return ws, false
		}
		if g.effectFree(name) {
			return nil, false
		}
		callee := c.StaticCallee()
		if callee == nil {
			if mc, ok := c.Value.(*ssa.MakeClosure); ok {
				callee = mc.Fn.(*ssa.Function)
			}
		}
		if callee != nil && depth < maxInlineDepth && fr.canInline(callee) {
			ws = append(ws, "Alloc")
			for _, b := range callee.Blocks {
				for _, ci := range b.Instrs {
					w2, a2 := g.instrWrites(fr, ci, depth+1)
					if a2 {
						return nil, true
					}
					ws = append(ws, w2...)
				}
			}
			return ws, false
		}
		if fr.fc != nil {
			for _, pa := range fr.fc.PureArgs {
				if p, ok := c.Value.(*ssa.Parameter); ok && p.Name() == pa {
					return nil, false
				}
			}
		}
		return nil, true
	}
	return nil, false
}

// modHeapNames determines, without evaluating, which heaps a modifies expression of a callee contract names.
func (g *Gen) modHeapNames(fc *FuncContract, m Expr, c *ssa.CallCommon) ([]string, bool) {
	// evaluate in a scratch environment with dummy argument values: only the heap name matters
	var sig *types.Signature
	if c.IsInvoke() {
		sig = c.Method.Type().(*types.Signature)
	} else if f := c.StaticCallee(); f != nil {
		sig = f.Signature
	} else {
		sig = c.Signature()
	}
	var args []Val
	var recv *Val
	if c.IsInvoke() {
		recv = &Val{T: "0", Go: c.Value.Type(), Sort: SInt}
	}
	for _, a := range c.Args {
		args = append(args, Val{T: g.sorts.ZeroOf(a.Type()), Go: a.Type(), Sort: g.sorts.SortOf(a.Type())})
	}
	vars := bindParams(sig, recv, args, false)
	// results may be mentioned (fresh objects)
	res := sig.Results()
	var rv []Val
	for i := 0; i < res.Len(); i++ {
		rv = append(rv, Val{T: g.sorts.ZeroOf(res.At(i).Type()), Go: res.At(i).Type(), Sort: g.sorts.SortOf(res.At(i).Type())})
	}
	bindResults(vars, sig, rv)
	var tpkg *types.Package
	if pk, ok := g.P.pkgs[fc.Pkg]; ok {
		tpkg = pk.Types
	}
	scratch := &State{h: map[string]string{}}
	env := &Env{g: g, vars: vars, st: scratch, old: scratch, pkg: tpkg}
	for i, l := range fc.Lets {
		v, err := env.Eval(fc.LetE[i])
		if err != nil {
			return nil, false
		}
		env.vars[l.Name] = v
	}
	// suppress emitted side facts: evaluate on a throw-away command buffer
	saved := g.cmds
	savedDecl := map[string]bool{}
	for k := range g.declared {
		savedDecl[k] = true
	}
	savedUF := map[string]bool{}
	for k := range g.uf {
		savedUF[k] = true
	}
	savedLits := len(g.strLits)
	locs, err := env.evalModLocs(m)
	g.cmds = saved
	for k := range g.declared {
		if !savedDecl[k] {
			delete(g.declared, k)
		}
	}
	for k := range g.uf {
		if !savedUF[k] {
			delete(g.uf, k)
		}
	}
	if len(g.strLits) != savedLits {
		return nil, false
	}
	if err != nil {
		return nil, false
	}
	var out []string
	for _, l := range locs {
		out = append(out, l.l.Heap)
	}
	return out, true
}

// ---------------------------------------------------------------------------------------------
// Ghost updates and assertions anchored at instructions
// ---------------------------------------------------------------------------------------------

func (fr *Frame) ghostAnchorsBefore(x *ssa.Call, st *State, reach string) {
	if fr.fc == nil || fr.depth > 0 {
		return
	}
	name := shortCallee(calleeName(x.Common()))
	ord := fr.callOrd[calleeName(x.Common())] + 1
	fr.runAnchors([]string{fmt.Sprintf("call %s#%d", name, ord), "call " + name}, "before", st, reach, x, Val{})
}

func (fr *Frame) ghostAnchorsAfter(x *ssa.Call, st *State, reach string, res Val) {
	if fr.fc == nil || fr.depth > 0 {
		return
	}
	name := shortCallee(calleeName(x.Common()))
	ord := fr.callOrd[calleeName(x.Common())]
	fr.runAnchors([]string{fmt.Sprintf("call %s#%d", name, ord), "call " + name}, "after", st, reach, x, res)
}

// ghostAnchorsPre / ghostAnchors: `before` clauses of a non-call anchor are evaluated in the state BEFORE the instruction
// (ghostAnchorsPre, called first), `after` clauses after it.
func (fr *Frame) ghostAnchorsPre(kind string, st *State, reach string, in ssa.Instruction) {
	if fr.fc == nil || fr.depth > 0 {
		return
	}
	fr.anchorOrd[kind]++
	keys := []string{fmt.Sprintf("%s#%d", kind, fr.anchorOrd[kind]), kind}
	fr.runAnchors(keys, "before", st, reach, in, Val{})
	fr.anchorPre[kind] = true
}

func (fr *Frame) ghostAnchors(kind string, st *State, reach string, in ssa.Instruction, res Val) {
	if fr.fc == nil || fr.depth > 0 {
		return
	}
	pre := fr.anchorPre[kind]
	fr.anchorPre[kind] = false
	if !pre {
		fr.anchorOrd[kind]++
	}
	keys := []string{fmt.Sprintf("%s#%d", kind, fr.anchorOrd[kind]), kind}
	fr.runAnchors(keys, "after", st, reach, in, res)
	if !pre {
		fr.runAnchors(keys, "before", st, reach, in, res)
	}
}

func anchorMatches(anchor string, keys []string) bool {
	a := strings.ReplaceAll(strings.Join(strings.Fields(anchor), " "), modPath+"/", "")
	for _, k := range keys {
		if a == k {
			return true
		}
		// allow short method names:  call (*StateDB).AddBalance  vs  call (*core/state.StateDB).AddBalance
		if strings.HasPrefix(a, "call ") && strings.HasPrefix(k, "call ") {
			an, kn := strings.TrimPrefix(a, "call "), strings.TrimPrefix(k, "call ")
			if stripPkgQual(kn) == an {
				return true
			}
		}
	}
	return false
}

// stripPkgQual: "(*core/state.StateDB).AddBalance#2" -> "(*StateDB).AddBalance#2"; "core/state.New" -> "New"
func stripPkgQual(s string) string {
	if strings.HasPrefix(s, "(") {
		j := strings.Index(s, ")")
		if j > 0 {
			recv := s[1:j]
			star := ""
			if strings.HasPrefix(recv, "*") {
				star = "*"
				recv = recv[1:]
			}
			if k := strings.LastIndex(recv, "."); k >= 0 {
				recv = recv[k+1:]
			}
			return "(" + star + recv + ")" + s[j+1:]
		}
	}
	base := s
	suffix := ""
	if k := strings.Index(s, "#"); k >= 0 {
		base, suffix = s[:k], s[k:]
	}
	if k := strings.LastIndex(base, "."); k >= 0 {
		base = base[k+1:]
	}
	return base + suffix
}

func (fr *Frame) runAnchors(keys []string, when string, st *State, reach string, in ssa.Instruction, res Val) {
	g := fr.g
	fc := fr.fc
	mkEnv := func() *Env {
		env := fr.envAt(st, fr.curBlock, fr.curIdx)
		if in != nil {
			if call, ok := in.(*ssa.Call); ok {
				// arguments of the anchored call are available as $0, $1, … / arg names
				for i, a := range call.Call.Args {
					env.vars[fmt.Sprintf("a%d", i)] = fr.val(a)
				}
				if call.Call.IsInvoke() {
					env.vars["recv"] = fr.val(call.Call.Value)
				} else if call.Call.StaticCallee() == nil {
					env.vars["callee"] = fr.val(call.Call.Value)
				}
				if res.T != "" {
					env.vars["ret"] = res
				}
				for i, t := range res.Tup {
					env.vars[fmt.Sprintf("ret%d", i)] = t
				}
			}
			if mu, ok := in.(*ssa.MapUpdate); ok {
				env.vars["key"] = fr.val(mu.Key)
				env.vars["value"] = fr.val(mu.Value)
				env.vars["map"] = fr.val(mu.Map)
			}
			if s, ok := in.(*ssa.Store); ok {
				env.vars["value"] = fr.val(s.Val)
			}
			if r, ok := in.(*ssa.Return); ok {
				// the values being returned at THIS return statement
				for i, rv := range r.Results {
					env.vars[fmt.Sprintf("result%d", i)] = fr.val(rv)
				}
				if len(r.Results) == 1 {
					env.vars["result"] = fr.val(r.Results[0])
				}
			}
		}
		return env
	}
	for i := range fc.Asserts {
		a := &fc.Asserts[i]
		if a.When != when || !anchorMatches(a.Anchor, keys) {
			continue
		}
		env := mkEnv()
		t, err := env.EvalBool(a.Assert.E)
		if err != nil {
			g.note("assert at %s cannot be evaluated: %v", a.Anchor, err)
			t = "false"
		}
		lbl := a.Assert.Label
		if lbl == "" {
			lbl = a.Anchor
		}
		props := fr.props
		if len(a.Assert.Props) > 0 {
			props = a.Assert.Props
		}
		pos := fr.fn.Pos()
		if in != nil {
			pos = in.Pos()
		}
		if a.Assume {
			if err == nil {
				g.assume(sImp(reach, t))
			}
			g.trusted[fmt.Sprintf("assume [%s] %s %s in %s: %s", lbl, a.When, a.Anchor, shortCallee(fc.Key), a.Assert.Src)] = true
			g.declared["anchor-used:"+fc.Key+":"+a.Anchor] = true
			continue
		}
		g.oblige("assert", fr.oname("assert", lbl), lbl, props, reach, t, a.Assert.Src, pos)
		g.declared["anchor-used:"+fc.Key+":"+a.Anchor] = true
	}
	for i := range fc.Ghosts {
		gh := &fc.Ghosts[i]
		if gh.When != when || !anchorMatches(gh.Anchor, keys) {
			continue
		}
		env := mkEnv()
		gv, ok := g.P.db.GhostVars[gh.Var]
		if !ok {
			g.note("ghost update of undeclared variable %s", gh.Var)
			continue
		}
		cur := env.ghostVal(gv)
		v, err := env.Eval(gh.E)
		if err != nil || v.Sort != cur.Sort {
			g.note("ghost update at %s cannot be evaluated: %v", gh.Anchor, err)
			continue
		}
		if strings.HasPrefix(cur.Sort, "(Array") {
			// sets and maps: a declared constant + equality, not a macro — the value may contain ite/store and must stay
			// usable inside quantifier patterns (`{ in(x, ghostSet) }`)
			st.h["Ghost:"+gv.Name] = g.bindConst("Ghost:"+gv.Name, cur.Sort, v.T)
		} else {
			st.h["Ghost:"+gv.Name] = g.define("Ghost:"+gv.Name, cur.Sort, v.T)
		}
		g.declared["anchor-used:"+fc.Key+":"+gh.Anchor] = true
	}
}
