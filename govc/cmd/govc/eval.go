package main

import (
	"fmt"
	"go/types"
	"math/big"
	"strings"

	"golang.org/x/tools/go/ssa"
)

// ---------------------------------------------------------------------------------------------
// Evaluation of contract expressions into SMT terms
// ---------------------------------------------------------------------------------------------

type Env struct {
	g      *Gen
	vars   map[string]Val
	st     *State // current state
	old    *State // function-entry state (old(...))
	lentry *State // loop-entry state (entry(...))
	pkg    *types.Package
	lookup func(name string) (Val, bool) // program variables at the current point
	bound  map[string]bool
	depth  int
	oldVars map[string]Val // values of variables for old()/entry() (e.g. loop-entry values of phis)
	params  func(name string) (Val, bool) // entry values of the parameters (names inside old(…) denote these)
}

func (e *Env) with(name string, v Val) *Env {
	n := *e
	n.vars = make(map[string]Val, len(e.vars)+1)
	for k, x := range e.vars {
		n.vars[k] = x
	}
	n.vars[name] = v
	return &n
}

func (e *Env) inState(st *State) *Env {
	n := *e
	n.st = st
	return &n
}

type evalErr struct{ msg string }

func (e evalErr) Error() string { return e.msg }

func efail(format string, a ...interface{}) { panic(evalErr{fmt.Sprintf(format, a...)}) }

// Eval evaluates a contract expression, returning an error instead of panicking.
func (e *Env) Eval(x Expr) (v Val, err error) {
	defer func() {
		if r := recover(); r != nil {
			if ee, ok := r.(evalErr); ok {
				err = ee
				return
			}
			panic(r)
		}
	}()
	v = e.eval(x)
	return
}

func (e *Env) EvalBool(x Expr) (string, error) {
	v, err := e.Eval(x)
	if err != nil {
		return "", err
	}
	if v.Sort != SBool {
		return "", fmt.Errorf("expected a boolean expression, got sort %s", v.Sort)
	}
	return v.T, nil
}

func intVal(t string) Val  { return Val{T: t, Sort: SInt} }
func boolVal(t string) Val { return Val{T: t, Sort: SBool} }

func (g *Gen) goVal(t string, ty types.Type) Val { return Val{T: t, Go: ty, Sort: g.sorts.SortOf(ty)} }

// resolveType parses a type written in the contract language.
func (e *Env) resolveType(s string) (sort string, goT types.Type) {
	s = strings.TrimSpace(s)
	switch s {
	case "int", "nat":
		return SInt, nil
	case "bool":
		return SBool, nil
	case "Ref", "ref":
		return SInt, nil
	case "byte", "uint8":
		return SInt, types.Typ[types.Uint8]
	case "uint64":
		return SInt, types.Typ[types.Uint64]
	case "uint32":
		return SInt, types.Typ[types.Uint32]
	case "int64":
		return SInt, types.Typ[types.Int64]
	case "uint":
		return SInt, types.Typ[types.Uint]
	case "string":
		return SInt, types.Typ[types.String]
	case "error":
		return SInt, types.Universe.Lookup("error").Type()
	case "Slice":
		return SSlice, nil
	case "float64":
		return SFloat, types.Typ[types.Float64]
	}
	if strings.HasPrefix(s, "set[") && strings.HasSuffix(s, "]") {
		ks, _ := e.resolveType(s[4 : len(s)-1])
		return arrSort(ks, SBool), nil
	}
	if strings.HasPrefix(s, "map[") {
		j := matchBracket(s, 3)
		ks, _ := e.resolveType(s[4:j])
		vs, _ := e.resolveType(s[j+1:])
		return arrSort(ks, vs), nil
	}
	if strings.HasPrefix(s, "seq[") && strings.HasSuffix(s, "]") {
		vs, _ := e.resolveType(s[4 : len(s)-1])
		return arrSort(SInt, vs), nil
	}
	if strings.HasPrefix(s, "*") {
		_, gt := e.resolveType(s[1:])
		if gt == nil {
			return SInt, nil
		}
		pt := types.NewPointer(gt)
		return SInt, pt
	}
	if strings.HasPrefix(s, "[]") {
		_, gt := e.resolveType(s[2:])
		if gt == nil {
			efail("slice of non-Go type %s", s)
		}
		return SSlice, types.NewSlice(gt)
	}
	if strings.HasPrefix(s, "[") {
		j := strings.Index(s, "]")
		n := new(big.Int)
		n.SetString(s[1:j], 10)
		_, gt := e.resolveType(s[j+1:])
		if gt == nil {
			efail("array of non-Go type %s", s)
		}
		at := types.NewArray(gt, n.Int64())
		return e.g.sorts.SortOf(at), at
	}
	if st, ok := e.g.P.db.SpecTypes[s]; ok {
		return e.g.specDT(st, e).Name, nil
	}
	// Go named type, possibly qualified
	var pkg *types.Package = e.pkg
	name := s
	if j := strings.LastIndex(s, "."); j >= 0 {
		pkg = e.g.P.findPackage(e.pkg, s[:j])
		name = s[j+1:]
		if pkg == nil {
			efail("unknown package in type %s", s)
		}
	}
	if pkg != nil {
		if obj := pkg.Scope().Lookup(name); obj != nil {
			if tn, ok := obj.(*types.TypeName); ok {
				return e.g.sorts.SortOf(tn.Type()), tn.Type()
			}
		}
	}
	if obj := types.Universe.Lookup(name); obj != nil {
		if tn, ok := obj.(*types.TypeName); ok {
			return e.g.sorts.SortOf(tn.Type()), tn.Type()
		}
	}
	efail("unknown type %s", s)
	return "", nil
}

func matchBracket(s string, open int) int {
	d := 0
	for i := open; i < len(s); i++ {
		if s[i] == '[' {
			d++
		} else if s[i] == ']' {
			d--
			if d == 0 {
				return i
			}
		}
	}
	return len(s) - 1
}

func (g *Gen) specDT(st *SpecType, e *Env) *Datatype {
	sym := quote("T:" + st.Name)
	if dt, ok := g.sorts.dts[sym]; ok {
		return dt
	}
	var fs []DTField
	for _, f := range st.Fields {
		srt, gt := e.resolveType(f.Type)
		fs = append(fs, DTField{Raw: f.Name, Sort: srt, Go: gt})
	}
	return g.sorts.AddSpecType(st.Name, fs)
}

func (e *Env) eval(x Expr) Val {
	g := e.g
	switch x := x.(type) {
	case *ENum:
		return intVal(sBig(x.V))
	case *EBool:
		if x.V {
			return boolVal("true")
		}
		return boolVal("false")
	case *EName:
		return e.evalName(x.Name)
	case *EOld:
		n := *e
		if x.Kind == "entry" {
			if e.lentry == nil {
				efail("entry(…) used outside a loop invariant")
			}
			n.st = e.lentry
		} else {
			if e.old == nil {
				efail("old(…) not available here")
			}
			n.st = e.old
			if e.params != nil {
				lk := e.lookup
				pm := e.params
				n.lookup = func(name string) (Val, bool) {
					if v, ok := pm(name); ok {
						return v, true
					}
					if lk != nil {
						return lk(name)
					}
					return Val{}, false
				}
			}
		}
		if e.oldVars != nil && x.Kind == "entry" {
			n.vars = make(map[string]Val, len(e.vars))
			for k, v := range e.vars {
				n.vars[k] = v
			}
			for k, v := range e.oldVars {
				n.vars[k] = v
			}
			lk := e.lookup
			ov := e.oldVars
			n.lookup = func(name string) (Val, bool) {
				if v, ok := ov[name]; ok {
					return v, true
				}
				if lk != nil {
					return lk(name)
				}
				return Val{}, false
			}
		}
		return n.eval(x.X)
	case *EUn:
		v := e.eval(x.X)
		switch x.Op {
		case "!":
			e.wantBool(v, "!")
			return boolVal(sNot(v.T))
		case "-":
			e.wantInt(v, "-")
			return intVal(app("-", v.T))
		case "*":
			return e.deref(v)
		}
	case *EBin:
		return e.evalBin(x)
	case *EIf:
		c := e.eval(x.C)
		e.wantBool(c, "if")
		a := e.eval(x.A)
		b := e.eval(x.B)
		if a.Sort != b.Sort {
			efail("if branches have different sorts %s / %s", a.Sort, b.Sort)
		}
		r := a
		r.T = sIte(c.T, a.T, b.T)
		return r
	case *ELet:
		v := e.eval(x.Val)
		return e.with(x.Name, v).eval(x.Body)
	case *EQuant:
		n := *e
		n.vars = make(map[string]Val, len(e.vars)+len(x.Vars))
		for k, v := range e.vars {
			n.vars[k] = v
		}
		n.bound = map[string]bool{}
		for k := range e.bound {
			n.bound[k] = true
		}
		var bs []string
		for _, b := range x.Vars {
			srt, gt := e.resolveType(b.Type)
			// binders are named per quantifier NODE of the contract source: a spec function whose body binds `k`, applied to an
			// argument that mentions an enclosing quantifier's `k`, must not capture it (macro expansion substitutes evaluated
			// terms); two expansions of the same spec function still yield syntactically identical formulas, which the
			// solvers rely on (`old(P(s)) ==> P(s)` with nothing changed is `A ==> A`)
			if g.binderIDs == nil {
				g.binderIDs = map[*EQuant]int{}
			}
			qid, seen := g.binderIDs[x]
			if !seen {
				qid = len(g.binderIDs) + 1
				g.binderIDs[x] = qid
			}
			sym := quote(fmt.Sprintf("q_%s.%d", b.Name, qid))
			n.vars[b.Name] = Val{T: sym, Sort: srt, Go: gt}
			n.bound[b.Name] = true
			bs = append(bs, "("+sym+" "+srt+")")
		}
		// under binders only pure terms may be built: no definitions, no side assertions mentioning bound variables
		g.pure++
		body := func() Val {
			defer func() { g.pure-- }()
			return n.eval(x.Body)
		}()
		e.wantBool(body, "quantifier body")
		bt := body.T
		if len(x.Trig) > 0 {
			var pats []string
			for _, tr := range x.Trig {
				var ts []string
				for _, t := range tr {
					g.pure++
					tv := func() Val {
						defer func() { g.pure-- }()
						return n.eval(t)
					}()
					ts = append(ts, tv.T)
				}
				pats = append(pats, ":pattern ("+strings.Join(ts, " ")+")")
			}
			okPat := true
			for _, pt := range pats {
				for _, bad := range []string{"(ite ", "(not ", "(and ", "(or ", "(=> ", "(= ", "(<= ", "(< ", "(>= ", "(> "} {
					if strings.Contains(pt, bad) {
						okPat = false // solvers reject patterns with logical/ite terms (e.g. an ite-merged heap): drop the pattern
					}
				}
			}
			if okPat {
				bt = "(! " + bt + " " + strings.Join(pats, " ") + ")"
			}
		}
		q := "forall"
		if !x.Forall {
			q = "exists"
		}
		return boolVal("(" + q + " (" + strings.Join(bs, " ") + ") " + bt + ")")
	case *ESel:
		// package-qualified name?
		if id, ok := x.X.(*EName); ok {
			if _, isVar := e.tryName(id.Name); !isVar {
				if pkg := g.P.findPackage(e.pkg, id.Name); pkg != nil {
					return e.evalQualified(pkg, x.Name)
				}
			}
		}
		v := e.eval(x.X)
		return e.selectField(v, x.Name)
	case *EIndex:
		v := e.eval(x.X)
		i := e.eval(x.I)
		return e.index(v, i)
	case *ESlice:
		v := e.eval(x.X)
		return e.sliceOf(v, x.Lo, x.Hi)
	case *ECall:
		return e.evalCall(x)
	case *ELit:
		if x.Type == "string" {
			return Val{T: g.strLit(x.Args[0].(*EName).Name), Sort: SInt, Go: types.Typ[types.String]}
		}
		st, ok := g.P.db.SpecTypes[x.Type]
		if !ok {
			efail("unknown spec type %s in literal", x.Type)
		}
		dt := g.specDT(st, e)
		if len(x.Args) != len(dt.Fields) {
			efail("literal %s needs %d fields", x.Type, len(dt.Fields))
		}
		var args []string
		for i, a := range x.Args {
			v := e.eval(a)
			if v.Sort != dt.Fields[i].Sort {
				efail("literal %s field %s: sort %s, want %s", x.Type, dt.Fields[i].Raw, v.Sort, dt.Fields[i].Sort)
			}
			args = append(args, v.T)
		}
		return Val{T: app(dt.Ctor, args...), Sort: dt.Name}
	}
	efail("cannot evaluate expression %T", x)
	return Val{}
}

func (e *Env) wantBool(v Val, ctx string) {
	if v.Sort != SBool {
		efail("%s: expected bool, got %s (%s)", ctx, v.Sort, v.T)
	}
}
func (e *Env) wantInt(v Val, ctx string) {
	if v.Sort != SInt {
		efail("%s: expected int, got %s (%s)", ctx, v.Sort, v.T)
	}
}

func (e *Env) tryName(name string) (Val, bool) {
	if v, ok := e.vars[name]; ok {
		return v, true
	}
	if e.lookup != nil {
		if v, ok := e.lookup(name); ok {
			return v, true
		}
	}
	return Val{}, false
}

func (e *Env) evalName(name string) Val {
	g := e.g
	if v, ok := e.tryName(name); ok {
		if v.Loc != nil && v.T == "" {
			// a variable living in memory: read it in the current state
			return g.loadLoc(e.st, v.Loc)
		}
		return v
	}
	switch name {
	case "nil":
		return Val{T: "0", Sort: SInt}
	case "nilslice":
		return Val{T: "nilslice", Sort: SSlice}
	}
	if gv, ok := g.P.db.GhostVars[name]; ok {
		return e.ghostVal(gv)
	}
	if e.pkg != nil {
		if obj := e.pkg.Scope().Lookup(name); obj != nil {
			return e.evalObj(obj)
		}
	}
	if sf, ok := g.P.db.SpecFuncs[name]; ok && len(sf.Params) == 0 {
		return e.callSpec(sf, nil)
	}
	if strings.Contains(name, "$") && e.pkg != nil {
		// a closure by its go/ssa name: makeLog$1
		if fn, ok := g.P.funcs[e.pkg.Path()+"."+name]; ok {
			return Val{T: g.funcID(fn), Fn: fn, Sort: SInt, Go: fn.Type()}
		}
	}
	efail("unknown name %q", name)
	return Val{}
}

func (e *Env) ghostVal(gv *GhostVar) Val {
	g := e.g
	srt, gt := e.resolveType(gv.Type)
	h := g.regHeap("Ghost:"+gv.Name, srt)
	g.ghost[h] = true
	return Val{T: g.heapGet(e.st, h), Sort: srt, Go: gt}
}

func (e *Env) evalQualified(pkg *types.Package, name string) Val {
	obj := pkg.Scope().Lookup(name)
	if obj == nil {
		efail("%s.%s not found", pkg.Name(), name)
	}
	return e.evalObj(obj)
}

func (e *Env) evalObj(obj types.Object) Val {
	g := e.g
	switch o := obj.(type) {
	case *types.Const:
		return g.constVal(o.Val(), o.Type())
	case *types.Var:
		sp := g.P.ssaProg.Package(o.Pkg())
		if sp == nil {
			efail("no SSA package for %s", o.Pkg().Path())
		}
		gl, ok := sp.Members[o.Name()].(*ssa.Global)
		if !ok {
			efail("%s is not a global", o.Name())
		}
		return g.loadGlobal(e.st, gl)
	}
	if fo, ok := obj.(*types.Func); ok {
		// a package-level function used as a value: its identity (the integer the engine gives function values)
		if fn := g.P.ssaProg.FuncValue(fo); fn != nil {
			return Val{T: g.funcID(fn), Fn: fn, Sort: SInt, Go: fo.Type()}
		}
	}
	efail("cannot use %s in a contract", obj.Name())
	return Val{}
}

func (e *Env) deref(v Val) Val {
	g := e.g
	if v.Loc != nil {
		return g.loadLoc(e.st, v.Loc)
	}
	if v.Go == nil {
		efail("deref of untyped value")
	}
	p, ok := v.Go.Underlying().(*types.Pointer)
	if !ok {
		efail("deref of non-pointer")
	}
	return g.loadPtr(e.st, v, p.Elem())
}

func (e *Env) evalBin(x *EBin) Val {
	switch x.Op {
	case "&&", "||", "==>", "<==>":
		a := e.eval(x.X)
		b := e.eval(x.Y)
		e.wantBool(a, x.Op)
		e.wantBool(b, x.Op)
		switch x.Op {
		case "&&":
			return boolVal(sAnd(a.T, b.T))
		case "||":
			return boolVal(sOr(a.T, b.T))
		case "==>":
			return boolVal(sImp(a.T, b.T))
		default:
			return boolVal(app("=", a.T, b.T))
		}
	case "^":
		a := e.eval(x.X)
		b := e.eval(x.Y)
		an, aok := new(big.Int).SetString(a.T, 10)
		bn, bok := new(big.Int).SetString(b.T, 10)
		if aok && bok && bn.IsInt64() && bn.Int64() < 4096 {
			return intVal(new(big.Int).Exp(an, bn, nil).String())
		}
		if a.T == "2" {
			return intVal(app("pow2", b.T))
		}
		efail("^ needs constant operands (or base 2)")
	}
	a := e.eval(x.X)
	b := e.eval(x.Y)
	switch x.Op {
	case "==", "!=":
		if a.Sort != b.Sort {
			efail("%s: comparing sorts %s and %s (%s vs %s)", x.Op, a.Sort, b.Sort, a.T, b.T)
		}
		t := sEq(a.T, b.T)
		if x.Op == "!=" {
			t = sNot(t)
		}
		return boolVal(t)
	case "<", "<=", ">", ">=":
		e.wantInt(a, x.Op)
		e.wantInt(b, x.Op)
		return boolVal(app(x.Op, a.T, b.T))
	case "+", "-", "*":
		e.wantInt(a, x.Op)
		e.wantInt(b, x.Op)
		return intVal(app(x.Op, a.T, b.T))
	case "/":
		e.wantInt(a, x.Op)
		e.wantInt(b, x.Op)
		return intVal(app("div", a.T, b.T)) // Euclidean; equals Go's / for non-negative operands
	case "%":
		e.wantInt(a, x.Op)
		e.wantInt(b, x.Op)
		return intVal(app("mod", a.T, b.T))
	}
	efail("unknown operator %s", x.Op)
	return Val{}
}

// selectField: v.f for pointers to structs, struct values and spec structs.
func (e *Env) selectField(v Val, name string) Val {
	g := e.g
	if v.Go == nil {
		// spec struct
		dt, ok := g.sorts.dts[v.Sort]
		if !ok {
			efail("field %s of non-struct sort %s", name, v.Sort)
		}
		for _, f := range dt.Fields {
			if f.Raw == name {
				return Val{T: app(f.Name, v.T), Sort: f.Sort, Go: f.Go}
			}
		}
		efail("spec type %s has no field %s", v.Sort, name)
	}
	// Go type: find the field path (handles embedding)
	t := v.Go
	obj, path, _ := types.LookupFieldOrMethod(t, true, nil, name)
	if obj == nil && e.pkg != nil {
		obj, path, _ = types.LookupFieldOrMethod(t, true, e.pkg, name)
	}
	if obj == nil {
		// try the package of the named type (unexported fields)
		if pk := pkgOfType(t); pk != nil {
			obj, path, _ = types.LookupFieldOrMethod(t, true, pk, name)
		}
	}
	if _, isVar := obj.(*types.Var); obj == nil || !isVar {
		efail("type %s has no field %s", typeStr(t), name)
	}
	cur := v
	for _, idx := range path {
		cur = g.fieldOf(e.st, cur, idx)
	}
	return cur
}

func pkgOfType(t types.Type) *types.Package {
	for {
		switch u := t.(type) {
		case *types.Pointer:
			t = u.Elem()
			continue
		case *types.Named:
			return u.Obj().Pkg()
		}
		return nil
	}
}

// fieldOf reads field #idx of a struct value, of a pointer to a struct, or through a symbolic location.
func (g *Gen) fieldOf(st *State, v Val, idx int) Val {
	if v.Loc != nil {
		l := g.fieldLoc(v, idx)
		if l.Loc != nil {
			return g.loadLoc(st, l.Loc)
		}
		return l
	}
	switch u := v.Go.Underlying().(type) {
	case *types.Pointer:
		fa := g.fieldLoc(v, idx)
		su := u.Elem().Underlying().(*types.Struct)
		ft := su.Field(idx).Type()
		if fa.Loc != nil {
			return g.loadLoc(st, fa.Loc)
		}
		// pointer to array stored out of line: load the array value
		return g.loadPtr(st, fa, ft)
	case *types.Struct:
		dt := g.sorts.structDT(v.Go, u)
		f := dt.Fields[idx]
		r := Val{T: app(f.Name, v.T), Go: u.Field(idx).Type(), Sort: f.Sort}
		return r
	}
	efail("field access on %s", typeStr(v.Go))
	return Val{}
}

// fieldLoc computes &v.f for v a pointer (term) or a symbolic location of struct type.
// The result has Loc set, or (for array-typed fields of heap objects) a term that is the array's reference.
func (g *Gen) fieldLoc(v Val, idx int) Val {
	if v.Loc != nil {
		su := v.Loc.T.Underlying().(*types.Struct)
		dt := g.sorts.structDT(v.Loc.T, su)
		nl := &Loc{Heap: v.Loc.Heap, Idx: v.Loc.Idx, T: su.Field(idx).Type()}
		nl.Path = append(append([]PathEl{}, v.Loc.Path...), PathEl{Sel: dt.Fields[idx].Name, Ctor: dt, FIdx: idx})
		return Val{Loc: nl, Go: types.NewPointer(nl.T), Sort: SInt}
	}
	pt := v.Go.Underlying().(*types.Pointer)
	st := pt.Elem()
	su, ok := st.Underlying().(*types.Struct)
	if !ok {
		efail("field address on pointer to non-struct %s", typeStr(v.Go))
	}
	ft := su.Field(idx).Type()
	if _, isArr := ft.Underlying().(*types.Array); isArr {
		// arrays inside heap objects live out of line in Elems at a derived reference
		heapA := "FA:" + typeStr(st) + "." + su.Field(idx).Name()
		return Val{T: g.derivedRef(heapA, v.T), Go: types.NewPointer(ft), Sort: SInt}
	}
	heap, _ := g.fieldHeap(st, idx)
	return Val{Loc: &Loc{Heap: heap, Idx: []string{v.T}, T: ft}, Go: types.NewPointer(ft), Sort: SInt}
}

// loadPtr loads *p where p is a reference term and el the pointee type.
func (g *Gen) loadPtr(st *State, p Val, el types.Type) Val {
	if p.Loc != nil {
		return g.loadLoc(st, p.Loc)
	}
	switch u := el.Underlying().(type) {
	case *types.Struct:
		if isBigInt(el) {
			efail("load of big.Int value")
		}
		dt := g.sorts.structDT(el, u)
		var args []string
		pv := Val{T: p.T, Go: types.NewPointer(el), Sort: SInt}
		for i := 0; i < u.NumFields(); i++ {
			args = append(args, g.fieldOf(st, pv, i).T)
		}
		if len(args) == 0 {
			args = []string{"0"}
		}
		return Val{T: app(dt.Ctor, args...), Go: el, Sort: dt.Name}
	case *types.Array:
		h := g.elemsHeap(u.Elem())
		return Val{T: app("select", g.heapGet(st, h), p.T), Go: el, Sort: g.sorts.SortOf(el)}
	}
	l := &Loc{Heap: g.cellHeap(el), Idx: []string{p.T}, T: el}
	return g.loadLoc(st, l)
}

// storePtr stores v to *p.
func (g *Gen) storePtr(st *State, p Val, el types.Type, v Val) {
	if p.Loc != nil {
		g.storeLoc(st, p.Loc, v.T)
		return
	}
	switch u := el.Underlying().(type) {
	case *types.Struct:
		dt := g.sorts.structDT(el, u)
		pv := Val{T: p.T, Go: types.NewPointer(el), Sort: SInt}
		for i := 0; i < u.NumFields(); i++ {
			fl := g.fieldLoc(pv, i)
			fv := Val{T: app(dt.Fields[i].Name, v.T), Go: u.Field(i).Type(), Sort: dt.Fields[i].Sort}
			g.storePtr(st, fl, u.Field(i).Type(), fv)
		}
		return
	case *types.Array:
		h := g.elemsHeap(u.Elem())
		g.heapSet(st, h, app("store", g.heapGet(st, h), p.T, v.T))
		return
	}
	g.storeLoc(st, &Loc{Heap: g.cellHeap(el), Idx: []string{p.T}, T: el}, v.T)
}

func (e *Env) index(v, i Val) Val {
	g := e.g
	if v.Go == nil {
		// SMT array (spec map / set / seq)
		if !strings.HasPrefix(v.Sort, "(Array ") {
			efail("indexing non-array sort %s", v.Sort)
		}
		_, el := splitArraySort(v.Sort)
		return Val{T: app("select", v.T, i.T), Sort: el}
	}
	switch u := v.Go.Underlying().(type) {
	case *types.Slice:
		e.wantInt(i, "index")
		h := g.elemsHeap(u.Elem())
		t := app("select", app("select", g.heapGet(e.st, h), app("sl.base", v.T)), app("+", app("sl.off", v.T), i.T))
		r := g.goVal(t, u.Elem())
		return r
	case *types.Array:
		e.wantInt(i, "index")
		return g.goVal(app("select", v.T, i.T), u.Elem())
	case *types.Map:
		// Go semantics: the zero value when the key is absent (or the map is nil)
		dom, val, _ := g.mapHeaps(u)
		present := sAnd(sNot(app("=", v.T, "0")), app("select", app("select", g.heapGet(e.st, dom), v.T), i.T))
		return g.goVal(sIte(present, app("select", app("select", g.heapGet(e.st, val), v.T), i.T), g.sorts.ZeroOf(u.Elem())), u.Elem())
	case *types.Pointer:
		if a, ok := u.Elem().Underlying().(*types.Array); ok {
			h := g.elemsHeap(a.Elem())
			return g.goVal(app("select", app("select", g.heapGet(e.st, h), v.T), i.T), a.Elem())
		}
	case *types.Basic:
		if u.Info()&types.IsString != 0 {
			return Val{T: app(g.declareUF("strat", []string{SInt, SInt}, SInt), v.T, i.T), Sort: SInt, Go: types.Typ[types.Uint8]}
		}
	}
	efail("cannot index %s", typeStr(v.Go))
	return Val{}
}

func splitArraySort(s string) (idx, el string) {
	// "(Array I E)"
	body := s[len("(Array ") : len(s)-1]
	d := 0
	for i := 0; i < len(body); i++ {
		switch body[i] {
		case '(':
			d++
		case ')':
			d--
		case ' ':
			if d == 0 {
				return body[:i], body[i+1:]
			}
		}
	}
	return body, ""
}

func (e *Env) sliceOf(v Val, lo, hi Expr) Val {
	if v.Go == nil {
		efail("slicing a non-Go value")
	}
	if _, ok := v.Go.Underlying().(*types.Slice); !ok {
		efail("slicing non-slice %s", typeStr(v.Go))
	}
	lt := "0"
	if lo != nil {
		l := e.eval(lo)
		e.wantInt(l, "slice")
		lt = l.T
	}
	ht := app("sl.len", v.T)
	if hi != nil {
		h := e.eval(hi)
		e.wantInt(h, "slice")
		ht = h.T
	}
	t := app("mkslice", app("sl.base", v.T), app("+", app("sl.off", v.T), lt), app("-", ht, lt), app("-", app("sl.cap", v.T), lt))
	return Val{T: t, Go: v.Go, Sort: SSlice}
}

func (g *Gen) strLit(s string) string {
	if s == "" {
		return "str_empty"
	}
	if sym, ok := g.strLits[s]; ok {
		return sym
	}
	if g.pure > 0 {
		efail("new string literal in pure-term mode")
	}
	sym := quote(fmt.Sprintf("str!%d", len(g.strLits)+1))
	g.emit(fmt.Sprintf("(declare-const %s Int)", sym))
	g.assume(app("=", app("strlen", sym), fmt.Sprint(len(s))))
	for _, k := range sortedKeysS(g.strLits) {
		g.assume(sNot(app("=", sym, g.strLits[k])))
	}
	if len(s) > 0 {
		g.assume(sNot(app("=", sym, "str_empty")))
	}
	g.strLits[s] = sym
	return sym
}

func (g *Gen) typeTag(t types.Type) string {
	k := typeStr(t)
	id, ok := g.typeTags[k]
	if !ok {
		id = len(g.typeTags) + 1
		g.typeTags[k] = id
	}
	return fmt.Sprint(id)
}

// ---------------------------------------------------------------------------------------------
// Calls in contract expressions: builtins and spec functions
// ---------------------------------------------------------------------------------------------

func (e *Env) evalCall(x *ECall) Val {
	g := e.g
	name := ""
	switch f := x.Fun.(type) {
	case *EName:
		name = f.Name
	case *ESel:
		if id, ok := f.X.(*EName); ok {
			name = id.Name + "." + f.Name
		}
	}
	arg := func(i int) Val {
		if i >= len(x.Args) {
			efail("%s: missing argument %d", name, i)
		}
		return e.eval(x.Args[i])
	}
	switch name {
	case "big":
		v := arg(0)
		return intVal(app("select", g.heapGet(e.st, g.bigHeap()), v.T))
	case "len":
		v := arg(0)
		return e.lenOf(v)
	case "cap":
		v := arg(0)
		if v.Sort != SSlice {
			efail("cap of non-slice")
		}
		return intVal(app("sl.cap", v.T))
	case "base":
		v := arg(0)
		if v.Sort != SSlice {
			efail("base of non-slice")
		}
		return intVal(app("sl.base", v.T))
	case "off":
		v := arg(0)
		if v.Sort != SSlice {
			efail("off of non-slice")
		}
		return intVal(app("sl.off", v.T))
	case "in":
		k := arg(0)
		m := arg(1)
		if m.Go != nil {
			if mt, ok := m.Go.Underlying().(*types.Map); ok {
				dom, _, _ := g.mapHeaps(mt)
				return boolVal(sAnd(sNot(app("=", m.T, "0")), app("select", app("select", g.heapGet(e.st, dom), m.T), k.T)))
			}
		}
		if strings.HasPrefix(m.Sort, "(Array ") {
			return boolVal(app("select", m.T, k.T))
		}
		efail("in: second argument is not a map or set")
	case "fresh":
		v := arg(0)
		if e.old == nil {
			efail("fresh outside postcondition")
		}
		t := v.T
		if v.Sort == SSlice {
			t = app("sl.base", v.T)
		}
		return boolVal(sAnd(app(">=", t, g.heapGet(e.old, g.allocHeap())), app("<", t, g.heapGet(e.st, g.allocHeap()))))
	case "oldobj":
		// oldobj(r): r denotes a cell of an object that existed at function entry — exactly the range of the frame obligation
		// (a plain reference below the entry allocation counter, or a derived in-object array reference whose owner is)
		return boolVal(oldObj(arg(0).T, g.heapGet(g.entry, "Alloc")))
	case "allocated":
		v := arg(0)
		return boolVal(app("<", v.T, g.heapGet(e.st, g.allocHeap())))
	case "abs":
		return intVal(app("absint", arg(0).T))
	case "min":
		return intVal(app("minint", arg(0).T, arg(1).T))
	case "max":
		return intVal(app("maxint", arg(0).T, arg(1).T))
	case "ediv":
		return intVal(app("div", arg(0).T, arg(1).T))
	case "emod":
		return intVal(app("mod", arg(0).T, arg(1).T))
	case "tdiv":
		return intVal(app("tdiv", arg(0).T, arg(1).T))
	case "tmod":
		return intVal(app("tmod", arg(0).T, arg(1).T))
	case "f64":
		// f64(n) / f64(n, d): the float64 constant n (or n/d) exactly as a Go constant of that value is encoded (floats are
		// uninterpreted: equal constants are equal, nothing else is known)
		lit := func(i int) string {
			s := strings.TrimSpace(exprString(x.Args[i]))
			if _, ok := new(big.Int).SetString(s, 10); !ok {
				efail("f64: integer literal expected, got %s", s)
			}
			return s
		}
		if len(x.Args) == 1 {
			return Val{T: g.floatConst(lit(0)), Sort: SFloat}
		}
		if len(x.Args) == 2 {
			r, ok := new(big.Rat).SetString(lit(0) + "/" + lit(1))
			if !ok {
				efail("f64(n, d)")
			}
			// a typed Go float64 constant is named by its value ROUNDED to float64 (0.685 is 1542482872374395/2^51)
			f, _ := r.Float64()
			if rr := new(big.Rat).SetFloat64(f); rr != nil {
				r = rr
			}
			return Val{T: g.floatConst(r.RatString()), Sort: SFloat}
		}
		efail("f64(n) or f64(n, d)")
		return Val{}
	case "fmul", "fadd", "fsub", "fdiv":
		// the engine's own (uninterpreted) float64 operations: the same symbols the translation of the code uses
		return Val{T: app(g.declareUF(name, []string{SFloat, SFloat}, SFloat), arg(0).T, arg(1).T), Sort: SFloat}
	case "flt", "fle", "fgt", "fge", "feq":
		return boolVal(app(g.declareUF(name, []string{SFloat, SFloat}, SBool), arg(0).T, arg(1).T))
	case "i2f":
		return Val{T: app(g.declareUF("i2f", []string{SInt}, SFloat), arg(0).T), Sort: SFloat}
	case "f2i":
		// f2i(x, T): conversion of a float64 to the Go integer type T as the code's `T(x)` computes it (uninterpreted)
		if len(x.Args) != 2 {
			efail("f2i(x, T)")
		}
		_, it := e.resolveType(exprString(x.Args[1]))
		if it == nil {
			efail("f2i: %s is not a Go integer type", exprString(x.Args[1]))
		}
		return intVal(app(g.declareUF("f2i:"+typeStr(it), []string{SFloat}, SInt), arg(0).T))
	case "zero":
		// zero(T): the zero value of the Go type T (arrays, structs, scalars), e.g. zero(common.Hash)
		if len(x.Args) != 1 {
			efail("zero(T)")
		}
		zs, zt := e.resolveType(exprString(x.Args[0]))
		if zt == nil {
			switch zs {
			case SInt:
				return intVal("0")
			case SBool:
				return boolVal("false")
			}
			efail("zero(%s): not a Go type", exprString(x.Args[0]))
		}
		return g.goVal(g.sorts.ZeroOf(zt), zt)
	case "wrapint":
		// signed 64-bit wrap (Go int / int64 arithmetic)
		return intVal(fmt.Sprintf("(- (mod (+ %s %s) %s) %s)", arg(0).T, pow2s(63), pow2s(64), pow2s(63)))
	case "wrap64":
		return intVal(app("mod", arg(0).T, pow2s(64)))
	case "wrap32":
		return intVal(app("mod", arg(0).T, pow2s(32)))
	case "wrap8":
		return intVal(app("mod", arg(0).T, "256"))
	case "band", "bor", "bxor", "bshl", "bshr":
		return intVal(app(name, arg(0).T, arg(1).T))
	case "typeof":
		return intVal(app("typeof", arg(0).T))
	case "unchanged":
		a := e.eval(x.Args[0])
		n := *e
		n.st = e.old
		b := n.eval(x.Args[0])
		return boolVal(sEq(a.T, b.T))
	case "store":
		a, i, v := arg(0), arg(1), arg(2)
		return Val{T: app("store", a.T, i.T, v.T), Sort: a.Sort}
	case "elems":
		// the content array of a slice's backing store / of a pointer to array
		v := arg(0)
		if v.Go != nil {
			switch u := v.Go.Underlying().(type) {
			case *types.Slice:
				h := g.elemsHeap(u.Elem())
				return Val{T: app("select", g.heapGet(e.st, h), app("sl.base", v.T)), Sort: arrSort(SInt, g.sorts.SortOf(u.Elem()))}
			case *types.Pointer:
				if a, ok := u.Elem().Underlying().(*types.Array); ok {
					h := g.elemsHeap(a.Elem())
					return Val{T: app("select", g.heapGet(e.st, h), v.T), Sort: arrSort(SInt, g.sorts.SortOf(a.Elem()))}
				}
			}
		}
		efail("elems: need a slice or pointer to array")
	case "mapdom", "mapval":
		m := arg(0)
		if m.Go != nil {
			if mt, ok := m.Go.Underlying().(*types.Map); ok {
				dom, val, _ := g.mapHeaps(mt)
				if name == "mapdom" {
					return Val{T: app("select", g.heapGet(e.st, dom), m.T), Sort: arrSort(g.sorts.SortOf(mt.Key()), SBool)}
				}
				return Val{T: app("select", g.heapGet(e.st, val), m.T), Sort: arrSort(g.sorts.SortOf(mt.Key()), g.sorts.SortOf(mt.Elem()))}
			}
		}
		efail("%s: need a map", name)
	case "box":
		// the interface value holding x (Go's implicit conversion to an interface type)
		v := arg(0)
		if v.Go == nil {
			efail("box: argument has no Go type")
		}
		srt := g.sorts.SortOf(v.Go)
		mk := g.declareUF("mkif:"+typeStr(v.Go), []string{srt}, SInt)
		un := g.declareUF("ifval:"+typeStr(v.Go), []string{SInt}, srt)
		t := app(mk, v.T)
		if g.pure == 0 {
			g.assume(sAnd(sEq(app(un, t), v.T), app("=", app("typeof", t), g.typeTag(v.Go)), app(">", t, "0")))
		}
		return Val{T: t, Sort: SInt}
	case "unbox", "hastype":
		i := arg(0)
		if len(x.Args) != 2 {
			efail("%s(i, T)", name)
		}
		_, gt := e.resolveType(exprString(x.Args[1]))
		if gt == nil {
			efail("%s: %s is not a Go type", name, exprString(x.Args[1]))
		}
		if name == "hastype" {
			return boolVal(sAnd(sNot(app("=", i.T, "0")), app("=", app("typeof", i.T), g.typeTag(gt))))
		}
		un := g.declareUF("ifval:"+typeStr(gt), []string{SInt}, g.sorts.SortOf(gt))
		return g.goVal(app(un, i.T), gt)
	case "emptyset":
		// emptyset(T): the empty set of elements of type T
		if len(x.Args) != 1 {
			efail("emptyset(T)")
		}
		ks, _ := e.resolveType(exprString(x.Args[0]))
		srt := arrSort(ks, SBool)
		return Val{T: fmt.Sprintf("((as const %s) false)", srt), Sort: srt}
	case "isnil":
		v := arg(0)
		if v.Sort == SSlice {
			return boolVal(app("=", app("sl.base", v.T), "0"))
		}
		return boolVal(app("=", v.T, "0"))
	case "alloc":
		return intVal(g.heapGet(e.st, g.allocHeap()))
	}
	// function-typed parameter declared pure: f(args) → apply
	if id, ok := x.Fun.(*EName); ok {
		if v, isVar := e.tryName(id.Name); isVar && v.Go != nil {
			if sig, ok := v.Go.Underlying().(*types.Signature); ok {
				var args []Val
				for i := range x.Args {
					args = append(args, arg(i))
				}
				if v.Fn != nil && len(v.Fn.Blocks) > 0 {
					if r, ok := g.pureInline(v, args, e.st); ok {
						return r
					}
				}
				return g.applyPure(v, sig, args)
			}
		}
	}
	if sf, ok := g.P.db.SpecFuncs[name]; ok {
		var args []Val
		for i := range x.Args {
			args = append(args, arg(i))
		}
		return e.callSpec(sf, args)
	}
	efail("unknown function %q in contract expression", name)
	return Val{}
}

func (g *Gen) applyPure(f Val, sig *types.Signature, args []Val) Val {
	var sorts []string
	sorts = append(sorts, SInt)
	ts := []string{f.T}
	for i, a := range args {
		sorts = append(sorts, g.sorts.SortOf(sig.Params().At(i).Type()))
		ts = append(ts, a.T)
	}
	if sig.Results().Len() != 1 {
		efail("pure function value must have exactly one result")
	}
	rt := sig.Results().At(0).Type()
	uf := g.declareUF("apply:"+typeStr(sig), sorts, g.sorts.SortOf(rt))
	return g.goVal(app(uf, ts...), rt)
}

func (e *Env) lenOf(v Val) Val {
	g := e.g
	if v.Sort == SSlice {
		return intVal(app("sl.len", v.T))
	}
	if v.Go != nil {
		switch u := v.Go.Underlying().(type) {
		case *types.Array:
			return intVal(fmt.Sprint(u.Len()))
		case *types.Map:
			_, _, ln := g.mapHeaps(u)
			return intVal(app("select", g.heapGet(e.st, ln), v.T))
		case *types.Basic:
			if u.Info()&types.IsString != 0 {
				return intVal(app("strlen", v.T))
			}
		case *types.Pointer:
			if a, ok := u.Elem().Underlying().(*types.Array); ok {
				return intVal(fmt.Sprint(a.Len()))
			}
		}
	}
	efail("len of %s", v.Sort)
	return Val{}
}

func (e *Env) callSpec(sf *SpecFunc, args []Val) Val {
	g := e.g
	if len(args) != len(sf.Params) {
		efail("spec func %s: %d arguments, want %d", sf.Name, len(args), len(sf.Params))
	}
	if e.depth > 40 {
		efail("spec func expansion too deep (recursive?) at %s", sf.Name)
	}
	// the package scope for type resolution inside the spec function is its defining package
	defEnv := *e
	if sf.Pkg != "" {
		if pk, ok := g.P.pkgs[sf.Pkg]; ok && pk.Types != nil {
			defEnv.pkg = pk.Types
		}
	}
	retSort, retGo := defEnv.resolveType(sf.Ret)
	for i, p := range sf.Params {
		ps, _ := defEnv.resolveType(p.Type)
		if ps != args[i].Sort {
			efail("spec func %s: argument %s has sort %s, want %s", sf.Name, p.Name, args[i].Sort, ps)
		}
	}
	if sf.Body == nil || sf.Rec {
		var sorts, ts []string
		for i := range sf.Params {
			sorts = append(sorts, args[i].Sort)
			ts = append(ts, args[i].T)
		}
		sym := quote("spec:" + sf.Name)
		if !g.uf[sym] {
			g.uf[sym] = true
			if sf.Body == nil {
				g.emit(fmt.Sprintf("(declare-fun %s (%s) %s)", sym, strings.Join(sorts, " "), retSort))
			} else {
				// recursive definition: heap independent by construction (evaluated over fresh bound variables)
				n := defEnv
				n.vars = map[string]Val{}
				n.lookup = nil
				n.depth = 0
				var bs []string
				for i, p := range sf.Params {
					ps, pg := defEnv.resolveType(p.Type)
					bsym := quote("a_" + p.Name)
					n.vars[p.Name] = Val{T: bsym, Sort: ps, Go: pg}
					bs = append(bs, "("+bsym+" "+sorts[i]+")")
				}
				body := n.eval(sf.Body)
				g.emit(fmt.Sprintf("(define-fun-rec %s (%s) %s %s)", sym, strings.Join(bs, " "), retSort, body.T))
			}
		}
		if len(ts) == 0 {
			return Val{T: sym, Sort: retSort, Go: retGo}
		}
		return Val{T: app(sym, ts...), Sort: retSort, Go: retGo}
	}
	// macro expansion in the caller's heap state
	n := defEnv
	n.vars = map[string]Val{}
	n.lookup = nil
	n.depth = e.depth + 1
	n.bound = e.bound
	for i, p := range sf.Params {
		_, pg := defEnv.resolveType(p.Type)
		a := args[i]
		if a.Go == nil {
			a.Go = pg
		}
		n.vars[p.Name] = a
	}
	r := n.eval(sf.Body)
	if r.Sort != retSort {
		efail("spec func %s: body has sort %s, declared %s", sf.Name, r.Sort, retSort)
	}
	if r.Go == nil {
		r.Go = retGo
	}
	return r
}
