package main

import (
	"encoding/json"
	"flag"
	"fmt"
	"os"
	"path/filepath"
	"sort"
	"strconv"
	"strings"
	"time"

	"go/types"

	"golang.org/x/tools/go/ssa"
)

type PropConfig struct {
	Packages    []string `json:"packages"`
	NotDecided  []string `json:"not_decided"`
	Assumptions []string `json:"assumptions"`
	Bounded     []string `json:"bounded"`
}

type Finding struct {
	Property   string `json:"property"`
	Obligation string `json:"obligation"`
	Region     string `json:"region"`
	What       string `json:"what"`
}

type FindingsFile struct {
	Findings []Finding `json:"findings"`
	Fixed    []string  `json:"fixed"`
}

func main() {
	if len(os.Args) < 2 {
		fmt.Fprintln(os.Stderr, "usage: govc check|dump|lock …")
		os.Exit(2)
	}
	switch os.Args[1] {
	case "check":
		os.Exit(cmdCheck(os.Args[2:]))
	case "dump":
		os.Exit(cmdDump(os.Args[2:]))
	case "selftest":
		os.Exit(cmdSelftest(os.Args[2:]))
	case "lock":
		os.Exit(cmdLock(os.Args[2:]))
	case "replay":
		os.Exit(cmdReplay(os.Args[2:]))
	default:
		fmt.Fprintln(os.Stderr, "unknown command", os.Args[1])
		os.Exit(2)
	}
}

func cmdDump(args []string) int {
	fs := flag.NewFlagSet("dump", flag.ExitOnError)
	repo := fs.String("repo", "/repo", "")
	verif := fs.String("verif", "/verif", "")
	pkgs := fs.String("pkgs", "", "comma separated packages")
	fn := fs.String("func", "", "function name substring")
	fs.Parse(args)
	p, err := LoadProg(*repo, *verif, strings.Split(*pkgs, ","), nil)
	if err != nil {
		fmt.Fprintln(os.Stderr, err)
		return 2
	}
	var names []string
	for n := range p.funcs {
		names = append(names, n)
	}
	sort.Strings(names)
	for _, n := range names {
		if strings.Contains(n, *fn) {
			p.funcs[n].WriteTo(os.Stdout)
		}
	}
	return 0
}

type checkOpts struct {
	replayBudget *int32 // candidate-model searches left for obligations the solver did not decide (per run)
	prop, tier, repo, verif string
	seed                    int
	timeout                 int
	workers                 int
	keep                    bool
	overlay                 map[string][]byte
	quiet                   bool
	noEvidence              bool
	only                    string
	mutantTag               string
	showNotes               bool
	noReplay                bool
}

type CheckOutcome struct {
	Results    []*ObligResult
	Violations []string
	Known      []string
	EngineErrs []string
	Funcs      []string
	Notes      []string
	Trusted    []string
	Exit       int
	Unreachable []string
	Anchors    []string // ghost-update anchors that matched an instruction (locked like obligations: a vanished anchor is reported)
	Wall       float64
	LoadS      float64
	GenS       float64
	SolveS     float64
}

func cmdCheck(args []string) int {
	fs := flag.NewFlagSet("check", flag.ExitOnError)
	o := checkOpts{}
	fs.StringVar(&o.prop, "prop", "", "property id")
	fs.StringVar(&o.tier, "tier", "quick", "quick|thorough")
	fs.StringVar(&o.repo, "repo", "/repo", "")
	fs.StringVar(&o.verif, "verif", "/verif", "")
	fs.IntVar(&o.seed, "seed", 0, "")
	fs.IntVar(&o.timeout, "timeout", 0, "per-obligation solver timeout (s)")
	fs.IntVar(&o.workers, "workers", 8, "")
	fs.BoolVar(&o.keep, "keep", false, "keep the SMT scripts of discharged obligations under out/")
	fs.StringVar(&o.only, "only", "", "only obligations whose name contains this")
	fs.BoolVar(&o.showNotes, "notes", false, "print imprecision notes")
	fs.BoolVar(&o.noReplay, "noreplay", false, "do not replay counterexamples against the real code")
	fs.StringVar(&o.mutantTag, "scratch", "", "scratch run tag: no evidence file, separate out/replay directories (for runs against another tree)")
	fs.Parse(args)
	if s := os.Getenv("VERIF_SEED"); s != "" && o.seed == 0 {
		o.seed, _ = strconv.Atoi(s)
	}
	if t := os.Getenv("VERIF_TIER"); t != "" && o.tier == "" {
		o.tier = t
	}
	if o.mutantTag != "" {
		o.noEvidence = true
	}
	out := runCheck(o)
	return out.Exit
}

// cmdLock records the obligations discharged on the current (committed) tree; later runs require each of them
// to be generated again (a vanished obligation is reported, it never silently counts as success).
func cmdLock(args []string) int {
	fs := flag.NewFlagSet("lock", flag.ExitOnError)
	repo := fs.String("repo", "/repo", "")
	verif := fs.String("verif", "/verif", "")
	fs.Parse(args)
	rc := 0
	for _, prop := range fs.Args() {
		os.Remove(filepath.Join(*verif, "lock", prop+".json"))
		out := runCheck(checkOpts{prop: prop, tier: "thorough", repo: *repo, verif: *verif, quiet: true, noEvidence: true, workers: 8, timeout: 30, mutantTag: "lock"})
		if out.Exit != 0 {
			fmt.Printf("lock %s: refused, the check does not pass (exit %d): %v %v\n", prop, out.Exit, out.Violations, out.EngineErrs)
			rc = 1
			continue
		}
		var names []string
		for _, r := range out.Results {
			// only obligations with stable, contract-derived names are locked (panic/overflow obligations are numbered
			// by instruction order, which a harmless reordering changes)
			switch r.O.Kind {
			case "ensures", "inv-entry", "inv-pres", "decreases", "lemma", "assert", "call-pre", "frame":
				if r.OK && r.Variant == "" {
					names = append(names, r.O.Name)
				}
			}
		}
		seenA := map[string]bool{}
		for _, a := range out.Anchors {
			if !seenA[a] {
				seenA[a] = true
				names = append(names, a)
			}
		}
		sort.Strings(names)
		writeJSON(filepath.Join(*verif, "lock", prop+".json"), names)
		fmt.Printf("lock %s: %d obligations recorded\n", prop, len(names))
	}
	return rc
}

func cmdReplay(args []string) int {
	fs := flag.NewFlagSet("replay", flag.ExitOnError)
	fs.String("repo", "/repo", "")
	fs.String("verif", "/verif", "")
	fs.Parse(args)
	if fs.NArg() < 1 {
		fmt.Println("usage: govc replay <path to replay json>")
		return 2
	}
	data, err := os.ReadFile(fs.Arg(0))
	if err != nil {
		fmt.Println(err)
		return 2
	}
	os.Stdout.Write(data)
	var rec map[string]interface{}
	json.Unmarshal(data, &rec)
	if script, ok := rec["script"].(string); ok {
		if _, err := os.Stat(script); err == nil {
			r := solve(script, 30, 0, false)
			fmt.Printf("re-run of %s: %s (%s, %.2fs)\n", script, r.Status, r.Solver, r.Time)
		}
	}
	if t, ok := rec["replay_test"].(string); ok {
		fmt.Println("replay test:", t)
	}
	return 1
}

func loadPropConfig(verif, prop string) (*PropConfig, error) {
	data, err := os.ReadFile(filepath.Join(verif, "props", prop+".json"))
	if err != nil {
		return nil, fmt.Errorf("property %s not configured: %v", prop, err)
	}
	var pc PropConfig
	if err := json.Unmarshal(data, &pc); err != nil {
		return nil, err
	}
	return &pc, nil
}

func loadFindings(verif string) (*FindingsFile, error) {
	var ff FindingsFile
	data, err := os.ReadFile(filepath.Join(verif, "known_findings.json"))
	if err != nil {
		if os.IsNotExist(err) {
			return &ff, nil
		}
		return nil, err
	}
	if err := json.Unmarshal(data, &ff); err != nil {
		return nil, err
	}
	return &ff, nil
}

func hasProp(props []string, p string) bool {
	for _, x := range props {
		if x == p {
			return true
		}
	}
	return false
}

// generate builds all obligations of a property from the current working tree.
func generate(p *Prog, prop string, ff *FindingsFile, out *CheckOutcome) []*Oblig {
	var obs []*Oblig
	type job struct {
		key string
		fc  *FuncContract
	}
	var jobs []job
	for k, cs := range p.db.Funcs {
		for _, fc := range cs {
			if fc.Trusted || (fc.NoBody && len(fc.Asserts) == 0) {
				continue
			}
			if hasProp(fc.Props, prop) || clauseHasProp(fc, prop) {
				jobs = append(jobs, job{k, fc})
			}
		}
	}
	sort.Slice(jobs, func(i, j int) bool { return jobs[i].key < jobs[j].key })
	trusted := map[string]bool{}
	for _, jb := range jobs {
		k, fc := jb.key, jb.fc
		fn, ok := p.funcs[k]
		if !ok {
			out.EngineErrs = append(out.EngineErrs, fmt.Sprintf("function under contract not found in the source: %s (%s:%d)", k, fc.File, fc.Line))
			continue
		}
		g := NewGen(p)
		g.prop = prop
		g.onlyAsserts = fc.NoBody // an ASSUMED (`nobody`) contract may still carry anchored asserts: only those are verified
		g.regions = map[string]string{}
		for _, f := range ff.Findings {
			if f.Property == prop && f.Region != "" {
				g.regions[f.Obligation] = f.Region
			}
		}
		err := func() (err error) {
			defer func() {
				if r := recover(); r != nil {
					if ee, ok := r.(evalErr); ok {
						err = fmt.Errorf("%s", ee.msg)
						return
					}
					if ce, ok := r.(contractErr); ok {
						err = fmt.Errorf("%s", ce.msg)
						return
					}
					panic(r)
				}
			}()
			g.emitAxioms(fn)
			return g.VerifyFunction(fn, fc)
		}()
		if err != nil {
			out.EngineErrs = append(out.EngineErrs, fmt.Sprintf("%s: %v", shortCallee(k), err))
			continue
		}
		out.Funcs = append(out.Funcs, shortCallee(k))
		for _, n := range g.notes {
			out.Notes = append(out.Notes, n)
		}
		for t := range g.trusted {
			trusted[t] = true
		}
		// unused anchors are an engine error (the contract refers to an instruction that no longer exists)
		for _, a := range fc.Asserts {
			if !g.declared["anchor-used:"+fc.Key+":"+a.Anchor] {
				out.EngineErrs = append(out.EngineErrs, fmt.Sprintf("%s: assert anchor %q matches no instruction", shortCallee(k), a.Anchor))
			}
		}
		for _, a := range fc.Ghosts {
			if !g.declared["anchor-used:"+fc.Key+":"+a.Anchor] {
				out.EngineErrs = append(out.EngineErrs, fmt.Sprintf("%s: ghost anchor %q matches no instruction", shortCallee(k), a.Anchor))
			} else {
				out.Anchors = append(out.Anchors, shortCallee(k)+"#ghost-anchor["+a.Anchor+"]")
			}
		}
		for _, o := range g.obligs {
			if hasProp(o.Props, prop) {
				obs = append(obs, o)
			}
		}
	}
	// encapsulation claims
	for _, ow := range p.db.OwnsList {
		if !hasProp(ow.Props, prop) {
			continue
		}
		viol := checkOwns(p, ow)
		g := NewGen(p)
		g.prop = prop
		cond := "true"
		src := "fields " + strings.Join(ow.Fields, ", ") + " are written only by the listed functions"
		if len(viol) > 0 {
			cond = "false"
			src += " — VIOLATED by: " + strings.Join(viol, "; ")
		}
		o := &Oblig{Name: shortCallee(ow.Pkg) + "#owns[" + strings.Join(ow.Fields, ",") + "]", Kind: "assert", Label: "owns", Props: []string{prop}, NCmds: 0, Reach: "true", Cond: cond, Src: src, Gen: g, Expect: "unsat", Pos: fmt.Sprintf("%s:%d", ow.File, ow.Line)}
		g.obligs = append(g.obligs, o)
		obs = append(obs, o)
	}
	// lemmas
	for _, lm := range p.db.Lemmas {
		if lm.Axiom || !strings.HasPrefix(lm.Label, prop+".") {
			continue
		}
		g := NewGen(p)
		g.prop = prop
		var tpkg = p.pkgs[lm.Pkg]
		env := &Env{g: g, vars: map[string]Val{}, st: &State{h: map[string]string{}}}
		env.old = env.st
		if tpkg != nil {
			env.pkg = tpkg.Types
		}
		g.emitAxiomsPkg(lm.Pkg, env)
		t, err := env.EvalBool(lm.E)
		if err != nil {
			out.EngineErrs = append(out.EngineErrs, fmt.Sprintf("lemma %s: %v", lm.Label, err))
			continue
		}
		o := &Oblig{Name: "lemma[" + lm.Label + "]", Kind: "lemma", Label: lm.Label, Props: []string{prop}, NCmds: len(g.cmds), Reach: "true", Cond: t, Src: lm.Src, Gen: g, Expect: "unsat", Pos: fmt.Sprintf("%s:%d", lm.File, lm.Line)}
		g.obligs = append(g.obligs, o)
		obs = append(obs, o)
	}
	for t := range trusted {
		out.Trusted = append(out.Trusted, t)
	}
	sort.Strings(out.Trusted)
	return obs
}

// checkOwns scans every function of the package for writes to the owned fields outside the owner list.
func checkOwns(p *Prog, ow *Owns) []string {
	owned := map[string]bool{}
	for _, f := range ow.Fields {
		owned[f] = true
	}
	owner := map[string]bool{}
	for _, f := range ow.Funcs {
		owner[f] = true
	}
	var viol []string
	var names []string
	for n := range p.funcs {
		names = append(names, n)
	}
	sort.Strings(names)
	for _, n := range names {
		fn := p.funcs[n]
		if fn.Pkg == nil && fn.Parent() == nil {
			continue
		}
		pk := fn.Pkg
		if pk == nil {
			for par := fn.Parent(); par != nil && pk == nil; par = par.Parent() {
				pk = par.Pkg
			}
		}
		if pk == nil || pk.Pkg.Path() != ow.Pkg || owner[n] {
			continue
		}
		for _, b := range fn.Blocks {
			for _, in := range b.Instrs {
				fa, ok := in.(*ssa.FieldAddr)
				if !ok {
					continue
				}
				pt, ok := fa.X.Type().Underlying().(*types.Pointer)
				if !ok {
					continue
				}
				nt, ok := pt.Elem().(*types.Named)
				if !ok {
					continue
				}
				su := nt.Underlying().(*types.Struct)
				key := nt.Obj().Name() + "." + su.Field(fa.Field).Name()
				if !owned[key] {
					continue
				}
				for _, ref := range *fa.Referrers() {
					switch r := ref.(type) {
					case *ssa.Store:
						if r.Addr == fa {
							viol = append(viol, fmt.Sprintf("%s stores to %s", shortCallee(n), key))
						}
					case *ssa.UnOp:
						// loaded value: map updates / deletes / non-pure method calls through it are writes
						if r.Referrers() == nil {
							continue
						}
						for _, r2 := range *r.Referrers() {
							switch u := r2.(type) {
							case *ssa.MapUpdate:
								if u.Map == r {
									viol = append(viol, fmt.Sprintf("%s updates map %s", shortCallee(n), key))
								}
							case *ssa.Call:
								c := u.Common()
								if bi, ok := c.Value.(*ssa.Builtin); ok && bi.Name() == "delete" && len(c.Args) > 0 && c.Args[0] == r {
									viol = append(viol, fmt.Sprintf("%s deletes from map %s", shortCallee(n), key))
								}
								if !c.IsInvoke() && c.StaticCallee() != nil && c.StaticCallee().Signature.Recv() != nil && len(c.Args) > 0 && c.Args[0] == r {
									name := calleeName(c)
									fc := p.db.Lookup(name, "")
									if !(fc != nil && fc.Pure) && !NewGen(p).effectFree(name) {
										viol = append(viol, fmt.Sprintf("%s calls %s on %s", shortCallee(n), shortCallee(name), key))
									}
								}
							}
						}
					case *ssa.DebugRef:
					default:
						viol = append(viol, fmt.Sprintf("%s takes the address of %s", shortCallee(n), key))
					}
				}
			}
		}
	}
	return viol
}

func clauseHasProp(fc *FuncContract, prop string) bool {
	for _, c := range fc.Ensures {
		if hasProp(c.Props, prop) {
			return true
		}
	}
	for _, a := range fc.Asserts {
		if a.Assert != nil && hasProp(a.Assert.Props, prop) {
			return true
		}
	}
	return false
}

func (g *Gen) emitAxioms(fn *ssa.Function) {
	pkg := ""
	if fn.Pkg != nil {
		pkg = fn.Pkg.Pkg.Path()
	} else if fn.Parent() != nil && fn.Parent().Pkg != nil {
		pkg = fn.Parent().Pkg.Pkg.Path()
	}
	env := &Env{g: g, vars: map[string]Val{}, st: &State{h: map[string]string{}}}
	env.old = env.st
	if pk, ok := g.P.pkgs[pkg]; ok {
		env.pkg = pk.Types
	}
	g.emitAxiomsPkg(pkg, env)
}

func (g *Gen) emitAxiomsPkg(pkg string, env *Env) {
	for _, lm := range g.P.db.Lemmas {
		if !lm.Axiom || (lm.Pkg != "" && lm.Pkg != pkg) {
			continue
		}
		t, err := env.EvalBool(lm.E)
		if err != nil {
			panic(evalErr{fmt.Sprintf("axiom %s: %v", lm.Label, err)})
		}
		g.assume(t)
		g.trusted["axiom "+lm.Label] = true
	}
}

func runCheck(o checkOpts) *CheckOutcome {
	t0 := time.Now()
	out := &CheckOutcome{}
	budget := int32(4)
	o.replayBudget = &budget
	say := func(format string, a ...interface{}) {
		if !o.quiet {
			fmt.Printf(format+"\n", a...)
		}
	}
	fail := func(msg string) *CheckOutcome {
		fmt.Printf("ENGINE-ERROR: %s\n", msg)
		out.Exit = 2
		return out
	}
	pc, err := loadPropConfig(o.verif, o.prop)
	if err != nil {
		return fail(err.Error())
	}
	ff, err := loadFindings(o.verif)
	if err != nil {
		return fail(err.Error())
	}
	timeout := o.timeout
	if timeout == 0 {
		timeout = 20 // seconds of solver CPU per run (a discharged obligation normally needs well under 2 s; the margin absorbs contention on a loaded machine)
		if o.tier == "thorough" {
			timeout = 120
		}
	}
	p, err := LoadProg(o.repo, o.verif, pc.Packages, o.overlay)
	if err != nil {
		return fail("load: " + err.Error())
	}
	if len(p.loadErrs) > 0 {
		return fail("the repository does not type-check: " + strings.Join(p.loadErrs[:1], "; "))
	}
	if err := p.LoadContracts(); err != nil {
		return fail("contracts: " + err.Error())
	}
	for f, e := range p.db.FileErrs {
		// a broken contract file of another property (named …_cNN.go) does not concern this check
		other := false
		if fp := fileProp(f); fp != "" && !strings.EqualFold(fp, o.prop) {
			other = true
		}
		if !other {
			return fail("contracts: " + e.Error())
		}
	}
	p.findingRegions = map[string]string{}
	for _, f := range ff.Findings {
		p.findingRegions[f.Obligation] = f.Region
	}
	out.LoadS = time.Since(t0).Seconds()
	t1 := time.Now()
	obs := generate(p, o.prop, ff, out)
	out.GenS = time.Since(t1).Seconds()
	if o.only != "" {
		var f []*Oblig
		for _, ob := range obs {
			if strings.Contains(ob.Name, o.only) {
				f = append(f, ob)
			}
		}
		obs = f
	}
	// quick tier skips return covers (kept: requires-sat)
	if o.tier != "thorough" {
		var f []*Oblig
		for _, ob := range obs {
			if ob.Kind == "cover-info" {
				continue
			}
			f = append(f, ob)
		}
		obs = f
	}
	// known findings: split listed obligations into the part outside the region (must hold) and inside (reported as known)
	var all []*Oblig
	variant := map[*Oblig]string{}
	known := map[*Oblig]*Finding{}
	for _, ob := range obs {
		var fnd *Finding
		for i := range ff.Findings {
			f := &ff.Findings[i]
			if f.Property == o.prop && f.Obligation == ob.Name {
				fnd = f
			}
		}
		if fnd == nil || ob.Expect != "unsat" {
			all = append(all, ob)
			continue
		}
		if fnd.Region == "" {
			c := *ob
			variant[&c] = "inside-region"
			known[&c] = fnd
			all = append(all, &c)
			continue
		}
		if ob.Region == "" {
			out.EngineErrs = append(out.EngineErrs, "known finding region could not be evaluated for "+ob.Name)
			all = append(all, ob)
			continue
		}
		a := *ob
		a.Extra = append(append([]string{}, ob.Extra...), sNot(ob.Region))
		variant[&a] = "outside-region"
		known[&a] = fnd
		b := *ob
		b.Extra = append(append([]string{}, ob.Extra...), ob.Region)
		variant[&b] = "inside-region"
		known[&b] = fnd
		all = append(all, &a, &b)
	}
	t2 := time.Now()
	outDir := filepath.Join(o.verif, "out", o.prop)
	if o.mutantTag != "" {
		outDir = filepath.Join(o.verif, "out", "_selftest", o.prop+"-"+o.mutantTag)
	}
	os.RemoveAll(outDir)
	// on a machine that is already overloaded, more parallel solver processes only lengthen every run (verdicts are CPU-time
	// limited, but the wall-clock backstop is finite): throttle the number of obligations in flight
	workers := o.workers
	if data, err := os.ReadFile("/proc/loadavg"); err == nil {
		var l1 float64
		fmt.Sscanf(string(data), "%f", &l1)
		switch {
		case l1 > 64 && workers > 2:
			workers = 2
		case l1 > 24 && workers > 4:
			workers = 4
		}
	}
	results := dischargeAll(all, outDir, timeout, o.seed, o.tier == "thorough", workers)
	out.SolveS = time.Since(t2).Seconds()
	out.Results = results
	replayDir := filepath.Join(o.verif, "replay", o.prop)
	if o.mutantTag != "" {
		replayDir = filepath.Join(o.verif, "out", "_selftest", "replay-"+o.prop+"-"+o.mutantTag)
	} else {
		os.RemoveAll(replayDir)
	}
	for _, r := range results {
		r.Variant = variant[r.O]
		r.Known = known[r.O]
		if r.Res.Status == "error" {
			out.EngineErrs = append(out.EngineErrs, "every solver rejected the script of "+r.O.Name+": "+firstLines(r.Res.Output, 2))
			continue
		}
		if r.Res.Status == "disagree" {
			out.EngineErrs = append(out.EngineErrs, "solvers disagree on "+r.O.Name)
			continue
		}
		if r.Variant == "inside-region" {
			if !r.OK {
				out.Known = append(out.Known, fmt.Sprintf("KNOWN-FINDING: property=%s %s [%s]", o.prop, r.Known.What, r.O.Name))
			}
			r.OK = true // the listed finding never fails the check
			continue
		}
		if r.OK {
			continue
		}
		if r.O.Kind == "cover-info" {
			out.Unreachable = append(out.Unreachable, fmt.Sprintf("%s: %s", r.O.Name, r.Res.Status))
			r.OK = true
			continue
		}
		if r.O.Expect == "sat" && r.Res.Status != "unsat" {
			// satisfiability not shown within the time limit (sat queries with quantified assumptions are hard):
			// only a PROVEN contradiction (unsat) is a vacuity error
			out.Unreachable = append(out.Unreachable, fmt.Sprintf("%s: %s", r.O.Name, r.Res.Status))
			r.OK = true
			continue
		}
		if r.O.Expect == "sat" {
			// vacuity guard tripped
			out.EngineErrs = append(out.EngineErrs, fmt.Sprintf("vacuity: %s is %s (contradictory assumptions?)", r.O.Name, r.Res.Status))
			continue
		}
		path := writeReplay(replayDir, o, r, p)
		line := fmt.Sprintf("VIOLATION property=%s replay=%s", o.prop, path)
		if !r.Replayed {
			line += " obligation=" + r.O.Name + " no-failing-input-found"
		} else {
			line += " obligation=" + r.O.Name
		}
		out.Violations = append(out.Violations, line)
	}
	// obligations.lock: every obligation discharged on the committed tree must still be generated
	lock := loadLock(o.verif, o.prop)
	if o.only == "" && lock != nil {
		have := map[string]bool{}
		// the ~k suffix numbers the program points one clause is checked at (back edges, matching instructions): their COUNT may
		// change under harmless edits, so a clause counts as still generated when it is generated at least once
		stem := func(n string) string {
			if i := strings.LastIndex(n, "~"); i > 0 && !strings.ContainsAny(n[i:], "]) ") {
				return n[:i]
			}
			return n
		}
		for _, r := range results {
			have[stem(r.O.Name)] = true
		}
		for _, a := range out.Anchors {
			have[a] = true
		}
		for _, name := range lock {
			name = stem(name)
			if strings.Contains(name, "#cover[return") && o.tier != "thorough" {
				continue
			}
			if !have[name] {
				os.MkdirAll(replayDir, 0o755)
				path := filepath.Join(replayDir, fileSafe(name)+".json")
				writeJSON(path, map[string]interface{}{"property": o.prop, "obligation": name, "status": "not generated",
					"explanation": "an obligation that is discharged on the committed tree is no longer generated from the current source (function, loop or anchored instruction removed or renamed); the proof of the property no longer goes through"})
				out.Violations = append(out.Violations, fmt.Sprintf("VIOLATION property=%s replay=%s obligation=%s no-failing-input-found", o.prop, path, name))
			}
		}
	}
	// scripts of discharged obligations are of no further use (about 400 MB per property); failing ones are kept, and a copy
	// sits next to the replay file. VERIF_KEEP=1 (or -keep) keeps everything for debugging.
	if !o.keep && os.Getenv("VERIF_KEEP") == "" {
		for _, r := range results {
			if r.OK && r.Script != "" {
				os.Remove(r.Script)
			}
		}
		if ents, err := os.ReadDir(outDir); err == nil && len(ents) == 0 {
			os.Remove(outDir)
		}
	}
	out.Wall = time.Since(t0).Seconds()
	sort.Strings(out.Notes)
	// report
	nOK := 0
	for _, r := range results {
		if r.OK {
			nOK++
		}
	}
	say("govc: property %s tier %s: %d functions under contract, %d obligations, %d discharged (load %.1fs, gen %.1fs, solve %.1fs)",
		o.prop, o.tier, len(out.Funcs), len(results), nOK, out.LoadS, out.GenS, out.SolveS)
	if o.showNotes {
		type sl struct {
			n string
			t float64
			s string
		}
		var sls []sl
		for _, r := range results {
			sls = append(sls, sl{r.O.Name, r.Res.Time, r.Res.Status + "/" + r.Res.Solver})
		}
		sort.Slice(sls, func(i, j int) bool { return sls[i].t > sls[j].t })
		for i := 0; i < len(sls) && i < 6; i++ {
			fmt.Printf("  slow: %.2fs %s %s\n", sls[i].t, sls[i].s, sls[i].n)
		}
		for _, n := range out.Notes {
			fmt.Println("  note:", n)
		}
	}
	for _, r := range results {
		if !r.OK && !o.quiet {
			fmt.Printf("  NOT DISCHARGED %s: %s (%s) — %s\n", r.O.Name, r.Res.Status, r.O.Pos, r.O.Src)
		}
	}
	if !o.quiet {
		for _, k := range out.Known {
			fmt.Println(k)
		}
		for _, e := range out.EngineErrs {
			fmt.Printf("ENGINE-ERROR: %s\n", e)
		}
		for _, v := range out.Violations {
			fmt.Println(v)
		}
	}
	switch {
	case len(out.Violations) > 0:
		out.Exit = 1
	case len(out.EngineErrs) > 0:
		out.Exit = 2
	case len(results) == 0:
		fmt.Println("ENGINE-ERROR: no obligations generated")
		out.Exit = 2
	}
	if !o.noEvidence {
		writeEvidence(o, pc, out, p)
	}
	return out
}

func loadLock(verif, prop string) []string {
	data, err := os.ReadFile(filepath.Join(verif, "lock", prop+".json"))
	if err != nil {
		return nil
	}
	var names []string
	if json.Unmarshal(data, &names) != nil {
		return nil
	}
	return names
}

func writeJSON(path string, v interface{}) {
	data, _ := json.MarshalIndent(v, "", " ")
	os.MkdirAll(filepath.Dir(path), 0o755)
	os.WriteFile(path, append(data, '\n'), 0o644)
}

func writeEvidence(o checkOpts, pc *PropConfig, out *CheckOutcome, p *Prog) {
	byBackend := map[string]int{}
	var solverTime float64
	var samples []map[string]interface{}
	nOK := 0
	kinds := map[string]int{}
	var names []string
	for _, r := range out.Results {
		if r.OK {
			nOK++
		}
		if r.Res.Solver != "" {
			byBackend[r.Res.Solver]++
		}
		solverTime += r.Res.Time
		kinds[r.O.Kind]++
		names = append(names, r.O.Name)
		if len(samples) < 8 && r.O.Kind != "cover" && r.O.Kind != "requires-sat" {
			samples = append(samples, map[string]interface{}{"obligation": r.O.Name, "kind": r.O.Kind, "clause": r.O.Src, "status": r.Res.Status, "solver": r.Res.Solver, "time_s": round3(r.Res.Time)})
		}
	}
	if len(samples) == 0 {
		for _, r := range out.Results {
			if len(samples) < 3 {
				samples = append(samples, map[string]interface{}{"obligation": r.O.Name, "kind": r.O.Kind, "status": r.Res.Status})
			}
		}
	}
	trusted := []string{
		"go/packages + go/types + go/ssa (x/tools v0.29.0) build SSA that means what the compiler's output means",
		"govc's translation of the SSA subset to SMT (integers: mathematical Int with explicit wrap-around; heap: one array per struct field)",
		"unsat answers of z3 5.1.0 / z3 4.8.12 / cvc5 1.0.3",
	}
	trusted = append(trusted, out.Trusted...)
	contractsSource := "repo"
	if len(p.mirror) > 0 {
		contractsSource = "mirror for: "
		for k := range p.mirror {
			contractsSource += k + " "
		}
	}
	ev := map[string]interface{}{
		"property_id": o.prop,
		"tier":        o.tier,
		"seed":        o.seed,
		"level":       "proof",
		"coverage": map[string]interface{}{
			"obligations":              len(out.Results),
			"discharged":               nOK,
			"checker_cmd":              fmt.Sprintf("./check %s %s", o.prop, o.tier),
			"trusted_base":             trusted,
			"samples":                  samples,
			"functions_under_contract": out.Funcs,
			"obligation_kinds":         kinds,
			"by_backend":               byBackend,
			"solver_time_s":            round3(solverTime),
			"arith_mode":               "mathematical Int with explicit modular wrap-around per Go integer type (no idealisation)",
			"bounded":                  pc.Bounded,
			"not_decided":              pc.NotDecided,
			"known_findings_seen":      out.Known,
			"returns_not_shown_reachable": out.Unreachable,
			"contracts_source":         contractsSource,
			"imprecision_notes":        out.Notes,
			"engine_errors":            out.EngineErrs,
			"obligation_names":         names,
		},
		"assumptions": append([]string{
			"sequential execution: goroutines, channels and interleavings are not modelled (lock discipline assumed)",
			"run-time panics in functions marked 'panics ignored' are treated as abnormal termination (postconditions hold on normal return)",
			"defer statements other than unlock/log calls are not modelled",
			"callees without contract are havocked (sound) unless inlined; callees with trusted contracts are listed in trusted_base",
		}, pc.Assumptions...),
		"wall_s":     round3(out.Wall),
		"violations": len(out.Violations),
	}
	if o.tier == "thorough" {
		if data, err := os.ReadFile(filepath.Join(o.verif, "out", "_selftest", o.prop+".summary.json")); err == nil {
			var ms map[string]interface{}
			if json.Unmarshal(data, &ms) == nil {
				ev["coverage"].(map[string]interface{})["mutant_selftest"] = ms
			}
		}
	}
	writeJSON(filepath.Join(o.verif, "evidence", o.prop+".json"), ev)
}

func round3(f float64) float64 { return float64(int(f*1000+0.5)) / 1000 }
