package main

import (
	"fmt"
	"math/big"
	"os"
	"path/filepath"
	"strings"
	"unicode"
)

// ---------------------------------------------------------------------------------------------
// Contract language: AST
// ---------------------------------------------------------------------------------------------

type Expr interface{}

type (
	ENum   struct{ V *big.Int }
	EBool  struct{ V bool }
	EName  struct{ Name string }
	ESel   struct {
		X    Expr
		Name string
	}
	EIndex struct{ X, I Expr }
	ESlice struct{ X, Lo, Hi Expr }
	ECall  struct {
		Fun  Expr
		Args []Expr
	}
	EUn  struct {
		Op string
		X  Expr
	}
	EBin struct {
		Op   string
		X, Y Expr
	}
	EIf    struct{ C, A, B Expr }
	EQuant struct {
		Forall bool
		Vars   []Binder
		Trig   [][]Expr
		Body   Expr
	}
	EOld struct {
		X    Expr
		Kind string // "old" (function entry) or "entry" (loop entry)
	}
	ELit struct {
		Type string
		Args []Expr
	}
	ELet struct {
		Name string
		Val  Expr
		Body Expr
	}
)

type Binder struct {
	Name string
	Type string
}

type Clause struct {
	Label string
	E     Expr
	Src   string
	File  string
	Line  int
	Props []string // optional per-clause property tags, e.g. {C07}
	Assumed bool   // `ensures [label] assumed <expr>`: used at call sites, NOT checked against the body (listed in evidence)
}

type LoopSpec struct {
	Key        string
	Invariants []Clause
	Decreases  Expr
	DecSrc     string
}

type GhostAt struct {
	Anchor string // e.g. "call (*StateDB).AddBalance#2", "mapupdate#1", "store T.f#1", "entry"
	Var    string
	E      Expr
	Src    string
	When   string // "before" | "after"
	Assert *Clause
	Assume bool // anchored assumption (listed in evidence), not an obligation
}

type FuncContract struct {
	Key      string
	Pkg      string
	Props    []string
	Panics   string // "none" | "ignored"
	Overflow string
	Requires []Clause
	Ensures  []Clause
	Modifies []Expr
	ModAll   bool
	ModSet   bool // a modifies clause was given
	Pure     bool
	Trusted  bool // contract is assumed, body not verified (stdlib, interface methods, external)
	NoBody   bool
	Loops    map[string]*LoopSpec
	Lets     []Binder // name = raw; stored parsed in LetE
	LetE     []Expr
	Ghosts   []GhostAt
	Asserts  []GhostAt
	PureArgs []string // parameters of function type treated as pure spec functions
	File     string
	Line     int
	Inline   bool
	Opts     map[string]string
	Assumes  []Clause
}

type SpecFunc struct {
	Name   string
	Pkg    string
	Params []Binder
	Ret    string
	Body   Expr // nil = uninterpreted
	Rec    bool
	Src    string
}

type SpecType struct {
	Name   string
	Pkg    string
	Fields []Binder
}

type Lemma struct {
	Label string
	Pkg   string
	E     Expr
	Src   string
	Axiom bool
	File  string
	Line  int
}

type GhostVar struct {
	Name string
	Pkg  string
	Type string
}

// Owns: encapsulation claim — the listed fields are written only by the listed functions (checked syntactically on the SSA
// of every function of the package). It is what makes an object invariant (assumed at method entry, proved at exit) sound.
type Owns struct {
	Pkg    string
	Fields []string // "T.f"
	Funcs  []string // expanded ssa names
	Props  []string
	File   string
	Line   int
}

type ContractDB struct {
	OwnsList   []*Owns
	Funcs      map[string][]*FuncContract // several contracts per function are allowed when they serve different properties
	FileErrs   map[string]error
	Overlay    map[string][]byte // in-memory replacements of contract files (mutant corpus)
	SpecFuncs  map[string]*SpecFunc
	SpecTypes  map[string]*SpecType
	Lemmas     []*Lemma
	GhostVars  map[string]*GhostVar
	EffectFree []string
	EffectFreeProp map[string]string // pattern -> property it is scoped to ("" = all): taken from the file name …_cNN.go
	Files      []string
}

func NewContractDB() *ContractDB {
	return &ContractDB{Funcs: map[string][]*FuncContract{}, FileErrs: map[string]error{}, EffectFreeProp: map[string]string{}, SpecFuncs: map[string]*SpecFunc{}, SpecTypes: map[string]*SpecType{}, GhostVars: map[string]*GhostVar{}}
}

// ---------------------------------------------------------------------------------------------
// Lexer
// ---------------------------------------------------------------------------------------------

type tok struct {
	k string // "id", "num", "op", "str", "eof"
	s string
}

func lex(src string) ([]tok, error) {
	var out []tok
	i := 0
	for i < len(src) {
		c := src[i]
		switch {
		case c == ' ' || c == '\t' || c == '\n' || c == '\r':
			i++
		case unicode.IsLetter(rune(c)) || c == '_':
			j := i
			for j < len(src) && (unicode.IsLetter(rune(src[j])) || unicode.IsDigit(rune(src[j])) || src[j] == '_' || src[j] == '$') {
				j++
			}
			out = append(out, tok{"id", src[i:j]})
			i = j
		case c >= '0' && c <= '9':
			j := i
			if c == '0' && j+1 < len(src) && (src[j+1] == 'x' || src[j+1] == 'X') {
				j += 2
				for j < len(src) && strings.ContainsRune("0123456789abcdefABCDEF_", rune(src[j])) {
					j++
				}
			} else {
				for j < len(src) && (src[j] >= '0' && src[j] <= '9' || src[j] == '_') {
					j++
				}
			}
			out = append(out, tok{"num", strings.ReplaceAll(src[i:j], "_", "")})
			i = j
		case c == '"':
			j := i + 1
			for j < len(src) && src[j] != '"' {
				j++
			}
			if j >= len(src) {
				return nil, fmt.Errorf("unterminated string")
			}
			out = append(out, tok{"str", src[i+1 : j]})
			i = j + 1
		default:
			ops := []string{"<==>", "==>", "::", "==", "!=", "<=", ">=", "&&", "||", "<<", ">>", ":=", "..",
				"+", "-", "*", "/", "%", "<", ">", "!", "(", ")", "[", "]", "{", "}", ",", ":", ".", "=", "^", ";", "&", "|", "#", "@"}
			matched := false
			for _, o := range ops {
				if strings.HasPrefix(src[i:], o) {
					out = append(out, tok{"op", o})
					i += len(o)
					matched = true
					break
				}
			}
			if !matched {
				return nil, fmt.Errorf("unexpected character %q", c)
			}
		}
	}
	out = append(out, tok{"eof", ""})
	return out, nil
}

// ---------------------------------------------------------------------------------------------
// Expression parser
// ---------------------------------------------------------------------------------------------

type parser struct {
	t   []tok
	p   int
	src string
}

func (p *parser) peek() tok { return p.t[p.p] }
func (p *parser) next() tok {
	t := p.t[p.p]
	if p.p < len(p.t)-1 {
		p.p++
	}
	return t
}
func (p *parser) isOp(s string) bool { t := p.peek(); return t.k == "op" && t.s == s }
func (p *parser) isID(s string) bool { t := p.peek(); return t.k == "id" && t.s == s }
func (p *parser) accept(s string) bool {
	if p.isOp(s) {
		p.next()
		return true
	}
	return false
}
func (p *parser) expect(s string) {
	if !p.accept(s) {
		panic(fmt.Errorf("expected %q, got %q in: %s", s, p.peek().s, p.src))
	}
}
func (p *parser) ident() string {
	t := p.next()
	if t.k != "id" {
		panic(fmt.Errorf("expected identifier, got %q in: %s", t.s, p.src))
	}
	return t.s
}

func parseExprString(src string) (e Expr, err error) {
	toks, err := lex(src)
	if err != nil {
		return nil, fmt.Errorf("%v in: %s", err, src)
	}
	p := &parser{t: toks, src: src}
	defer func() {
		if r := recover(); r != nil {
			if re, ok := r.(error); ok {
				err = re
				return
			}
			panic(r)
		}
	}()
	e = p.expr()
	if p.peek().k != "eof" {
		return nil, fmt.Errorf("trailing input %q in: %s", p.peek().s, src)
	}
	return e, nil
}

func (p *parser) expr() Expr {
	if p.isID("forall") || p.isID("exists") {
		fa := p.next().s == "forall"
		vars := p.binders("::")
		p.expect("::")
		var trig [][]Expr
		for p.isOp("{") {
			p.next()
			var tr []Expr
			for {
				tr = append(tr, p.expr())
				if !p.accept(",") {
					break
				}
			}
			p.expect("}")
			trig = append(trig, tr)
		}
		body := p.expr()
		return &EQuant{Forall: fa, Vars: vars, Trig: trig, Body: body}
	}
	if p.isID("let") {
		p.next()
		name := p.ident()
		p.expect("=")
		v := p.expr()
		if !p.isID("in") {
			panic(fmt.Errorf("expected 'in' in let: %s", p.src))
		}
		p.next()
		body := p.expr()
		return &ELet{Name: name, Val: v, Body: body}
	}
	return p.implies()
}

// binders: a, b: T, c: U   terminated by the given op
func (p *parser) binders(term string) []Binder {
	var out []Binder
	for {
		var names []string
		for {
			names = append(names, p.ident())
			if !p.accept(",") {
				break
			}
		}
		p.expect(":")
		ty := p.typeExpr()
		for _, n := range names {
			out = append(out, Binder{n, ty})
		}
		if !p.accept(",") {
			break
		}
	}
	return out
}

// typeExpr parses a type and returns its raw text.
func (p *parser) typeExpr() string {
	var b strings.Builder
	for {
		switch {
		case p.isOp("*"):
			p.next()
			b.WriteString("*")
			continue
		case p.isOp("["):
			p.next()
			b.WriteString("[")
			for !p.isOp("]") {
				b.WriteString(p.next().s)
			}
			p.next()
			b.WriteString("]")
			continue
		}
		break
	}
	name := p.ident()
	if name == "map" || name == "set" || name == "seq" {
		b.WriteString(name)
		p.expect("[")
		b.WriteString("[")
		b.WriteString(p.typeExpr())
		p.expect("]")
		b.WriteString("]")
		if name == "map" {
			b.WriteString(p.typeExpr())
		}
		return b.String()
	}
	b.WriteString(name)
	for p.isOp(".") || p.isOp("/") {
		b.WriteString(p.next().s)
		b.WriteString(p.ident())
	}
	return b.String()
}

func (p *parser) implies() Expr {
	l := p.iff()
	if p.accept("==>") {
		r := p.impliesOrQuant()
		return &EBin{"==>", l, r}
	}
	return l
}

func (p *parser) impliesOrQuant() Expr {
	if p.isID("forall") || p.isID("exists") || p.isID("let") {
		return p.expr()
	}
	return p.implies()
}

func (p *parser) iff() Expr {
	l := p.or()
	for p.accept("<==>") {
		r := p.or()
		l = &EBin{"<==>", l, r}
	}
	return l
}

func (p *parser) or() Expr {
	l := p.and()
	for p.accept("||") {
		r := p.and()
		l = &EBin{"||", l, r}
	}
	return l
}

func (p *parser) and() Expr {
	l := p.cmp()
	for p.accept("&&") {
		var r Expr
		if p.isID("forall") || p.isID("exists") {
			r = p.expr()
		} else {
			r = p.cmp()
		}
		l = &EBin{"&&", l, r}
	}
	return l
}

func (p *parser) cmp() Expr {
	l := p.add()
	var res Expr
	for {
		t := p.peek()
		if t.k == "op" && (t.s == "==" || t.s == "!=" || t.s == "<" || t.s == "<=" || t.s == ">" || t.s == ">=") {
			p.next()
			r := p.add()
			c := &EBin{t.s, l, r}
			if res == nil {
				res = c
			} else {
				res = &EBin{"&&", res, c} // chained comparison a <= b < c
			}
			l = r
			continue
		}
		break
	}
	if res != nil {
		return res
	}
	return l
}

func (p *parser) add() Expr {
	l := p.mul()
	for {
		t := p.peek()
		if t.k == "op" && (t.s == "+" || t.s == "-") {
			p.next()
			r := p.mul()
			l = &EBin{t.s, l, r}
			continue
		}
		break
	}
	return l
}

func (p *parser) mul() Expr {
	l := p.unary()
	for {
		t := p.peek()
		if t.k == "op" && (t.s == "*" || t.s == "/" || t.s == "%") {
			p.next()
			r := p.unary()
			l = &EBin{t.s, l, r}
			continue
		}
		break
	}
	return l
}

func (p *parser) unary() Expr {
	if p.accept("!") {
		return &EUn{"!", p.unary()}
	}
	if p.accept("-") {
		return &EUn{"-", p.unary()}
	}
	return p.pow()
}

func (p *parser) pow() Expr {
	l := p.postfix()
	if p.accept("^") {
		r := p.unary()
		return &EBin{"^", l, r}
	}
	return l
}

func (p *parser) postfix() Expr {
	e := p.primary()
	for {
		switch {
		case p.isOp("."):
			p.next()
			e = &ESel{e, p.ident()}
		case p.isOp("["):
			p.next()
			var lo, hi Expr
			if p.isOp(":") {
				p.next()
				if !p.isOp("]") {
					hi = p.expr()
				}
				p.expect("]")
				e = &ESlice{e, nil, hi}
				continue
			}
			lo = p.expr()
			if p.accept(":") {
				if !p.isOp("]") {
					hi = p.expr()
				}
				p.expect("]")
				e = &ESlice{e, lo, hi}
				continue
			}
			p.expect("]")
			e = &EIndex{e, lo}
		case p.isOp("("):
			p.next()
			var args []Expr
			for !p.isOp(")") {
				args = append(args, p.expr())
				if !p.accept(",") {
					break
				}
			}
			p.expect(")")
			e = &ECall{e, args}
		default:
			return e
		}
	}
}

func (p *parser) primary() Expr {
	t := p.peek()
	switch t.k {
	case "num":
		p.next()
		v := new(big.Int)
		if _, ok := v.SetString(t.s, 0); !ok {
			panic(fmt.Errorf("bad number %q", t.s))
		}
		return &ENum{v}
	case "str":
		p.next()
		return &ELit{Type: "string", Args: []Expr{&EName{t.s}}}
	case "id":
		switch t.s {
		case "true", "false":
			p.next()
			return &EBool{t.s == "true"}
		case "old", "entry":
			if !(p.p+1 < len(p.t) && p.t[p.p+1].k == "op" && p.t[p.p+1].s == "(") {
				// a program variable that happens to be called `old` / `entry`
				p.next()
				return &EName{t.s}
			}
			p.next()
			p.expect("(")
			x := p.expr()
			p.expect(")")
			return &EOld{x, t.s}
		case "if":
			p.next()
			c := p.expr()
			if !p.isID("then") {
				panic(fmt.Errorf("expected then in: %s", p.src))
			}
			p.next()
			a := p.expr()
			if !p.isID("else") {
				panic(fmt.Errorf("expected else in: %s", p.src))
			}
			p.next()
			b := p.expr()
			return &EIf{c, a, b}
		}
		p.next()
		// struct literal  Name{a, b, c}
		if p.isOp("{") && len(t.s) > 0 && unicode.IsUpper(rune(t.s[0])) {
			p.next()
			var args []Expr
			for !p.isOp("}") {
				args = append(args, p.expr())
				if !p.accept(",") {
					break
				}
			}
			p.expect("}")
			return &ELit{Type: t.s, Args: args}
		}
		return &EName{t.s}
	case "op":
		if t.s == "(" {
			p.next()
			e := p.expr()
			p.expect(")")
			return e
		}
		if t.s == "*" { // deref
			p.next()
			return &EUn{"*", p.unary()}
		}
	}
	panic(fmt.Errorf("unexpected token %q in: %s", t.s, p.src))
}

// ---------------------------------------------------------------------------------------------
// Directive parser
// ---------------------------------------------------------------------------------------------

var directiveKW = map[string]bool{
	"func": true, "package": true, "props": true, "panics": true, "overflow": true, "requires": true, "ensures": true,
	"modifies": true, "pure": true, "trusted": true, "loop": true, "let": true, "spec": true, "type": true,
	"lemma": true, "axiom": true, "ghost": true, "effectfree": true, "inline": true, "assume": true, "pureparam": true,
	"assert": true, "opt": true, "nobody": true, "owns": true,
}

type rawDirective struct {
	kw   string
	text string
	line int
}

func stripLineComment(s string) string {
	// strip trailing " // comment" (not inside quotes)
	inq := false
	for i := 0; i+1 < len(s); i++ {
		if s[i] == '"' {
			inq = !inq
		}
		if !inq && s[i] == '/' && s[i+1] == '/' {
			return strings.TrimRight(s[:i], " \t")
		}
	}
	return s
}

func readDirectives(path string, overlay map[string][]byte) ([]rawDirective, string, error) {
	data, ok := overlay[path]
	if !ok {
		var err error
		data, err = os.ReadFile(path)
		if err != nil {
			return nil, "", err
		}
	}
	var out []rawDirective
	pkgName := ""
	for i, line := range strings.Split(string(data), "\n") {
		tl := strings.TrimSpace(line)
		if strings.HasPrefix(tl, "package ") && pkgName == "" {
			pkgName = strings.TrimSpace(strings.TrimPrefix(tl, "package "))
			continue
		}
		if !strings.HasPrefix(tl, "//@") {
			continue
		}
		body := stripLineComment(strings.TrimPrefix(tl, "//@"))
		tb := strings.TrimSpace(body)
		if tb == "" {
			continue
		}
		first := tb
		if j := strings.IndexAny(tb, " \t"); j >= 0 {
			first = tb[:j]
		}
		if directiveKW[first] {
			out = append(out, rawDirective{kw: first, text: strings.TrimSpace(tb[len(first):]), line: i + 1})
		} else {
			if len(out) == 0 {
				return nil, "", fmt.Errorf("%s:%d: continuation line without directive", path, i+1)
			}
			out[len(out)-1].text += " " + tb
		}
	}
	return out, pkgName, nil
}

// anchorColon finds the colon that ends an anchor: the first ':' followed by white space or '[' (so that
// `call dynamic:core/vm.executionFunc: [label] …` splits after the callee name).
func anchorColon(t string) int {
	for i := 0; i < len(t); i++ {
		if t[i] == ':' && (i+1 == len(t) || t[i+1] == ' ' || t[i+1] == '\t' || t[i+1] == '[') {
			return i
		}
	}
	return -1
}

func splitLabel(s string) (label, rest string) {
	s = strings.TrimSpace(s)
	if strings.HasPrefix(s, "[") {
		if j := strings.Index(s, "]"); j > 0 {
			return strings.TrimSpace(s[1:j]), strings.TrimSpace(s[j+1:])
		}
	}
	return "", s
}

func splitProps(s string) (props []string, rest string) {
	s = strings.TrimSpace(s)
	if strings.HasPrefix(s, "{") {
		if j := strings.Index(s, "}"); j > 0 {
			for _, p := range strings.Split(s[1:j], ",") {
				props = append(props, strings.TrimSpace(p))
			}
			return props, strings.TrimSpace(s[j+1:])
		}
	}
	return nil, s
}

// expandFuncKey turns "(*T).M", "T.M"?, "F", "F$1" written in package pkg into the go/ssa full name.
// A name that already contains a '/' or whose qualifier is a known stdlib-style path is left alone.
func expandFuncKey(name, pkg string) string {
	name = strings.TrimSpace(name)
	if strings.HasPrefix(name, "dynamic:") {
		rest := strings.TrimPrefix(name, "dynamic:")
		if strings.Contains(rest, "/") || strings.Contains(rest, ".") {
			return name
		}
		return "dynamic:" + pkg + "." + rest
	}
	qualify := func(id string) string {
		if strings.Contains(id, "/") || strings.Contains(id, ".") {
			return id
		}
		return pkg + "." + id
	}
	if strings.HasPrefix(name, "(") {
		j := strings.Index(name, ")")
		if j < 0 {
			return name
		}
		recv := name[1:j]
		rest := name[j+1:]
		star := ""
		if strings.HasPrefix(recv, "*") {
			star = "*"
			recv = recv[1:]
		}
		return "(" + star + qualify(recv) + ")" + rest
	}
	// plain function possibly with $n suffix
	base := name
	suffix := ""
	if k := strings.Index(name, "$"); k >= 0 {
		base, suffix = name[:k], name[k:]
	}
	return qualify(base) + suffix
}

func (db *ContractDB) ParseFile(path string, pkgPath string) error {
	dirs, _, err := readDirectives(path, db.Overlay)
	if err != nil {
		return err
	}
	db.Files = append(db.Files, path)
	var cur *FuncContract
	fail := func(d rawDirective, e error) error { return fmt.Errorf("%s:%d: %s: %v", path, d.line, d.kw, e) }
	for _, d := range dirs {
		switch d.kw {
		case "package":
			pkgPath = strings.TrimSpace(d.text)
			cur = nil
		case "func":
			fields := strings.Fields(d.text)
			if len(fields) == 0 {
				return fail(d, fmt.Errorf("missing name"))
			}
			// the key may contain spaces? no.
			key := expandFuncKey(fields[0], pkgPath)
			cur = &FuncContract{Key: key, Pkg: pkgPath, Panics: "ignored", Loops: map[string]*LoopSpec{}, File: path, Line: d.line, Opts: map[string]string{}}
			db.Funcs[key] = append(db.Funcs[key], cur)
			for i := 1; i < len(fields); i++ {
				if fields[i] == "props" {
					for _, p := range fields[i+1:] {
						for _, q := range strings.Split(p, ",") {
							if q = strings.TrimSpace(q); q != "" {
								cur.Props = append(cur.Props, q)
							}
						}
					}
					break
				}
			}
		case "props":
			if cur == nil {
				return fail(d, fmt.Errorf("outside func"))
			}
			for _, q := range strings.Split(d.text, ",") {
				if q = strings.TrimSpace(q); q != "" {
					cur.Props = append(cur.Props, q)
				}
			}
		case "panics":
			if cur == nil {
				return fail(d, fmt.Errorf("outside func"))
			}
			cur.Panics = strings.TrimSpace(d.text)
			if cur.Panics != "none" && cur.Panics != "ignored" {
				return fail(d, fmt.Errorf("panics none|ignored"))
			}
		case "overflow":
			if cur == nil {
				return fail(d, fmt.Errorf("outside func"))
			}
			cur.Overflow = strings.TrimSpace(d.text)
		case "opt":
			if cur == nil {
				return fail(d, fmt.Errorf("outside func"))
			}
			kv := strings.SplitN(d.text, "=", 2)
			if len(kv) == 2 {
				cur.Opts[strings.TrimSpace(kv[0])] = strings.TrimSpace(kv[1])
			} else {
				cur.Opts[strings.TrimSpace(d.text)] = "true"
			}
		case "pure":
			if cur == nil {
				return fail(d, fmt.Errorf("outside func"))
			}
			cur.Pure = true
			cur.ModSet = true
		case "trusted":
			if cur == nil {
				return fail(d, fmt.Errorf("outside func"))
			}
			cur.Trusted = true
		case "nobody":
			if cur == nil {
				return fail(d, fmt.Errorf("outside func"))
			}
			cur.NoBody = true
		case "inline":
			if cur == nil {
				return fail(d, fmt.Errorf("outside func"))
			}
			cur.Inline = true
		case "pureparam":
			if cur == nil {
				return fail(d, fmt.Errorf("outside func"))
			}
			for _, q := range strings.Split(d.text, ",") {
				cur.PureArgs = append(cur.PureArgs, strings.TrimSpace(q))
			}
		case "requires", "ensures", "assume":
			if cur == nil {
				return fail(d, fmt.Errorf("outside func"))
			}
			if d.kw == "assume" && (strings.HasPrefix(d.text, "after ") || strings.HasPrefix(d.text, "before ") || strings.HasPrefix(d.text, "at ")) {
				// anchored assumption: assume after call X: [label] expr
				t := strings.TrimSpace(d.text)
				when := "after"
				switch {
				case strings.HasPrefix(t, "before "):
					when = "before"
					t = strings.TrimPrefix(t, "before ")
				case strings.HasPrefix(t, "after "):
					t = strings.TrimPrefix(t, "after ")
				case strings.HasPrefix(t, "at "):
					t = strings.TrimPrefix(t, "at ")
				}
				j := anchorColon(t)
				if j < 0 {
					return fail(d, fmt.Errorf("assume after ANCHOR: [label] expr"))
				}
				anchor := strings.TrimSpace(t[:j])
				label, rest := splitLabel(t[j+1:])
				e, err := parseExprString(rest)
				if err != nil {
					return fail(d, err)
				}
				cur.Asserts = append(cur.Asserts, GhostAt{Anchor: anchor, When: when, Assume: true, Assert: &Clause{Label: label, E: e, Src: rest, File: path, Line: d.line}})
				break
			}
			label, rest := splitLabel(d.text)
			props, rest := splitProps(rest)
			assumed := false
			if d.kw == "ensures" && strings.HasPrefix(rest, "assumed ") {
				assumed = true
				rest = strings.TrimSpace(strings.TrimPrefix(rest, "assumed "))
			}
			e, err := parseExprString(rest)
			if err != nil {
				return fail(d, err)
			}
			c := Clause{Label: label, E: e, Src: rest, File: path, Line: d.line, Props: props, Assumed: assumed}
			switch d.kw {
			case "requires":
				cur.Requires = append(cur.Requires, c)
			case "ensures":
				cur.Ensures = append(cur.Ensures, c)
			default:
				cur.Assumes = append(cur.Assumes, c)
			}
		case "modifies":
			if cur == nil {
				return fail(d, fmt.Errorf("outside func"))
			}
			cur.ModSet = true
			t := strings.TrimSpace(d.text)
			if t == "nothing" {
				break
			}
			if t == "all" || t == "*" {
				cur.ModAll = true
				break
			}
			for _, part := range splitTop(t, ',') {
				if pt := strings.TrimSpace(part); pt == "all" || pt == "*" {
					cur.ModAll = true // `modifies all, Ghost1, Ghost2`: the heap and the listed ghost variables
					continue
				}
				e, err := parseExprString(part)
				if err != nil {
					return fail(d, err)
				}
				cur.Modifies = append(cur.Modifies, e)
			}
		case "let":
			if cur == nil {
				return fail(d, fmt.Errorf("outside func"))
			}
			kv := strings.SplitN(d.text, "=", 2)
			if len(kv) != 2 {
				return fail(d, fmt.Errorf("let name = expr"))
			}
			e, err := parseExprString(kv[1])
			if err != nil {
				return fail(d, err)
			}
			cur.Lets = append(cur.Lets, Binder{Name: strings.TrimSpace(kv[0])})
			cur.LetE = append(cur.LetE, e)
		case "loop":
			if cur == nil {
				return fail(d, fmt.Errorf("outside func"))
			}
			// loop KEY invariant [label] expr | loop KEY decreases expr
			t := d.text
			var key string
			if strings.HasPrefix(t, "\"") {
				j := strings.Index(t[1:], "\"")
				if j < 0 {
					return fail(d, fmt.Errorf("unterminated loop key"))
				}
				key = t[1 : j+1]
				t = strings.TrimSpace(t[j+2:])
			} else {
				f := strings.Fields(t)
				key = f[0]
				t = strings.TrimSpace(t[len(f[0]):])
			}
			ls := cur.Loops[key]
			if ls == nil {
				ls = &LoopSpec{Key: key}
				cur.Loops[key] = ls
			}
			switch {
			case strings.HasPrefix(t, "invariant"):
				label, rest := splitLabel(strings.TrimPrefix(t, "invariant"))
				e, err := parseExprString(rest)
				if err != nil {
					return fail(d, err)
				}
				ls.Invariants = append(ls.Invariants, Clause{Label: label, E: e, Src: rest, File: path, Line: d.line})
			case strings.HasPrefix(t, "decreases"):
				rest := strings.TrimSpace(strings.TrimPrefix(t, "decreases"))
				e, err := parseExprString(rest)
				if err != nil {
					return fail(d, err)
				}
				ls.Decreases = e
				ls.DecSrc = rest
			default:
				return fail(d, fmt.Errorf("loop KEY invariant|decreases …"))
			}
		case "spec":
			// spec func name(a, b: T, c: U) R = body
			t := strings.TrimSpace(d.text)
			rec := false
			if strings.HasPrefix(t, "rec ") {
				rec = true
				t = strings.TrimSpace(t[4:])
			}
			if !strings.HasPrefix(t, "func ") {
				return fail(d, fmt.Errorf("spec func …"))
			}
			t = strings.TrimSpace(t[5:])
			sf, err := parseSpecFunc(t)
			if err != nil {
				return fail(d, err)
			}
			sf.Pkg = pkgPath
			sf.Rec = rec
			if _, dup := db.SpecFuncs[sf.Name]; dup {
				return fail(d, fmt.Errorf("duplicate spec func %s", sf.Name))
			}
			db.SpecFuncs[sf.Name] = sf
		case "type":
			// type Name struct { a, b: int; c: bool }
			t := strings.TrimSpace(d.text)
			j := strings.Index(t, "struct")
			if j < 0 {
				return fail(d, fmt.Errorf("type Name struct {…}"))
			}
			name := strings.TrimSpace(t[:j])
			body := strings.TrimSpace(t[j+6:])
			body = strings.TrimSuffix(strings.TrimPrefix(body, "{"), "}")
			st := &SpecType{Name: name, Pkg: pkgPath}
			for _, part := range splitTop(strings.ReplaceAll(body, ";", ","), ',') {
				part = strings.TrimSpace(part)
				if part == "" {
					continue
				}
				kv := strings.SplitN(part, ":", 2)
				if len(kv) == 1 {
					// name without type: takes the type of the next typed group: handled below
					st.Fields = append(st.Fields, Binder{Name: strings.TrimSpace(kv[0])})
					continue
				}
				st.Fields = append(st.Fields, Binder{Name: strings.TrimSpace(kv[0]), Type: strings.TrimSpace(kv[1])})
			}
			// back-fill types for "a, b: int"
			for i := len(st.Fields) - 2; i >= 0; i-- {
				if st.Fields[i].Type == "" {
					st.Fields[i].Type = st.Fields[i+1].Type
				}
			}
			db.SpecTypes[name] = st
		case "lemma", "axiom":
			label, rest := splitLabel(d.text)
			e, err := parseExprString(rest)
			if err != nil {
				return fail(d, err)
			}
			db.Lemmas = append(db.Lemmas, &Lemma{Label: label, Pkg: pkgPath, E: e, Src: rest, Axiom: d.kw == "axiom", File: path, Line: d.line})
		case "ghost":
			t := strings.TrimSpace(d.text)
			switch {
			case strings.HasPrefix(t, "var "):
				kv := strings.SplitN(strings.TrimSpace(t[4:]), ":", 2)
				if len(kv) != 2 {
					return fail(d, fmt.Errorf("ghost var Name: type"))
				}
				n := strings.TrimSpace(kv[0])
				db.GhostVars[n] = &GhostVar{Name: n, Pkg: pkgPath, Type: strings.TrimSpace(kv[1])}
			case strings.HasPrefix(t, "at ") || strings.HasPrefix(t, "before ") || strings.HasPrefix(t, "after "):
				if cur == nil {
					return fail(d, fmt.Errorf("outside func"))
				}
				when := "after"
				if strings.HasPrefix(t, "before ") {
					when = "before"
					t = "at " + strings.TrimPrefix(t, "before ")
				} else if strings.HasPrefix(t, "after ") {
					t = "at " + strings.TrimPrefix(t, "after ")
				}
				t = strings.TrimSpace(t[3:])
				j := anchorColon(t)
				for j >= 0 && j+1 < len(t) && t[j+1] == ':' { // skip "::"
					k := strings.Index(t[j+2:], ":")
					if k < 0 {
						j = -1
						break
					}
					j = j + 2 + k
				}
				if j < 0 {
					return fail(d, fmt.Errorf("ghost at ANCHOR: var = expr"))
				}
				anchor := strings.TrimSpace(t[:j])
				asg := strings.TrimSpace(t[j+1:])
				kv := strings.SplitN(asg, ":=", 2)
				if len(kv) != 2 {
					return fail(d, fmt.Errorf("ghost at ANCHOR: var := expr"))
				}
				e, err := parseExprString(kv[1])
				if err != nil {
					return fail(d, err)
				}
				cur.Ghosts = append(cur.Ghosts, GhostAt{Anchor: anchor, Var: strings.TrimSpace(kv[0]), E: e, Src: asg, When: when})
			default:
				return fail(d, fmt.Errorf("ghost var|at"))
			}
		case "assert":
			// assert at|before|after ANCHOR: [label] expr
			if cur == nil {
				return fail(d, fmt.Errorf("outside func"))
			}
			t := strings.TrimSpace(d.text)
			when := "before"
			switch {
			case strings.HasPrefix(t, "before "):
				t = strings.TrimPrefix(t, "before ")
			case strings.HasPrefix(t, "after "):
				when = "after"
				t = strings.TrimPrefix(t, "after ")
			case strings.HasPrefix(t, "at "):
				t = strings.TrimPrefix(t, "at ")
			}
			j := anchorColon(t)
			if j < 0 {
				return fail(d, fmt.Errorf("assert at ANCHOR: [label] expr"))
			}
			anchor := strings.TrimSpace(t[:j])
			label, rest := splitLabel(t[j+1:])
			props, rest := splitProps(rest)
			e, err := parseExprString(rest)
			if err != nil {
				return fail(d, err)
			}
			cur.Asserts = append(cur.Asserts, GhostAt{Anchor: anchor, When: when, Assert: &Clause{Label: label, E: e, Src: rest, File: path, Line: d.line, Props: props}})
		case "owns":
			// owns T.f, T.g by F1, (*T).M props C02
			t := d.text
			var props []string
			if k := strings.Index(t, " props "); k >= 0 {
				for _, q := range strings.Split(t[k+7:], ",") {
					if q = strings.TrimSpace(q); q != "" {
						props = append(props, q)
					}
				}
				t = t[:k]
			}
			k := strings.Index(t, " by ")
			if k < 0 {
				return fail(d, fmt.Errorf("owns T.f, … by F, … props CNN"))
			}
			ow := &Owns{Pkg: pkgPath, Props: props, File: path, Line: d.line}
			for _, f := range strings.Split(t[:k], ",") {
				ow.Fields = append(ow.Fields, strings.TrimSpace(f))
			}
			for _, f := range splitTop(t[k+4:], ',') {
				ow.Funcs = append(ow.Funcs, expandFuncKey(strings.TrimSpace(f), pkgPath))
			}
			db.OwnsList = append(db.OwnsList, ow)
		case "effectfree":
			for _, f := range strings.Fields(d.text) {
				scope := fileProp(path)
				if old, seen := db.EffectFreeProp[f]; seen && old != scope {
					scope = old + "," + scope // declared by several properties
				} else if !seen {
					db.EffectFree = append(db.EffectFree, f)
				}
				db.EffectFreeProp[f] = scope
			}
		}
	}
	return nil
}

// Lookup returns the contract of a function to be used while checking property prop: the contract serving that
// property if there is one, else a property-independent (library) contract, else none.
func (db *ContractDB) Lookup(key, prop string) *FuncContract {
	cs := db.Funcs[key]
	if len(cs) == 0 {
		return nil
	}
	for _, c := range cs {
		if hasProp(c.Props, prop) {
			return c
		}
	}
	for _, c := range cs {
		if len(c.Props) == 0 {
			return c
		}
	}
	// no fallback to a contract that serves only OTHER properties: its preconditions would become obligations of this
	// property. Share a contract explicitly by listing several properties (`props C08, C09`).
	return nil
}

// Validate reports duplicate contracts (two contracts of one function serving the same property).
func (db *ContractDB) Validate() error {
	for key, cs := range db.Funcs {
		seen := map[string]*FuncContract{}
		for _, c := range cs {
			ps := c.Props
			if len(ps) == 0 {
				ps = []string{""}
			}
			for _, p := range ps {
				if o, dup := seen[p]; dup {
					if c.Trusted && o.Trusted {
						continue // two library specs of one function: the first (by file order) is used
					}
					return fmt.Errorf("%s:%d: duplicate contract for %s serving property %q (first at %s:%d)", c.File, c.Line, key, p, o.File, o.Line)
				}
				seen[p] = c
			}
		}
	}
	return nil
}

// fileProp: the property a contract file belongs to by its name (verif_contracts_c12.go, c15_math_big.spec), "" if none.
func fileProp(path string) string {
	base := strings.ToLower(filepath.Base(path))
	base = strings.TrimSuffix(strings.TrimSuffix(base, ".go"), ".spec")
	for _, part := range strings.Split(base, "_") {
		if len(part) >= 3 && part[0] == 'c' && part[1] >= '0' && part[1] <= '9' {
			digits := true
			for _, c := range part[1:] {
				if c < '0' || c > '9' {
					digits = false
				}
			}
			if digits {
				return strings.ToUpper(part)
			}
		}
	}
	return ""
}

func splitTop(s string, sep byte) []string {
	var out []string
	depth := 0
	last := 0
	for i := 0; i < len(s); i++ {
		switch s[i] {
		case '(', '[', '{':
			depth++
		case ')', ']', '}':
			depth--
		default:
			if s[i] == sep && depth == 0 {
				out = append(out, s[last:i])
				last = i + 1
			}
		}
	}
	out = append(out, s[last:])
	return out
}

func parseSpecFunc(t string) (*SpecFunc, error) {
	// name(params) ret [= body]
	i := strings.Index(t, "(")
	if i < 0 {
		return nil, fmt.Errorf("missing (")
	}
	name := strings.TrimSpace(t[:i])
	depth := 0
	j := i
	for ; j < len(t); j++ {
		if t[j] == '(' {
			depth++
		} else if t[j] == ')' {
			depth--
			if depth == 0 {
				break
			}
		}
	}
	if j >= len(t) {
		return nil, fmt.Errorf("unbalanced parens")
	}
	ps := t[i+1 : j]
	rest := strings.TrimSpace(t[j+1:])
	sf := &SpecFunc{Name: name, Src: t}
	if strings.TrimSpace(ps) != "" {
		toks, err := lex(ps)
		if err != nil {
			return nil, err
		}
		p := &parser{t: toks, src: ps}
		var perr error
		func() {
			defer func() {
				if r := recover(); r != nil {
					perr = fmt.Errorf("%v", r)
				}
			}()
			sf.Params = p.binders("")
		}()
		if perr != nil {
			return nil, perr
		}
	}
	body := ""
	if k := indexTopEq(rest); k >= 0 {
		body = strings.TrimSpace(rest[k+1:])
		rest = strings.TrimSpace(rest[:k])
	}
	sf.Ret = rest
	if sf.Ret == "" {
		sf.Ret = "bool"
	}
	if body != "" {
		e, err := parseExprString(body)
		if err != nil {
			return nil, err
		}
		sf.Body = e
	}
	return sf, nil
}

// indexTopEq finds the first '=' that is a definition sign (not ==, <=, >=, !=, ==>).
func indexTopEq(s string) int {
	for i := 0; i < len(s); i++ {
		if s[i] != '=' {
			continue
		}
		if i+1 < len(s) && (s[i+1] == '=') {
			i++
			continue
		}
		if i > 0 && (s[i-1] == '<' || s[i-1] == '>' || s[i-1] == '!' || s[i-1] == '=') {
			continue
		}
		return i
	}
	return -1
}
