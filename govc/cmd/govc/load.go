package main

import (
	"fmt"
	"go/token"
	"go/types"
	"os"
	"path/filepath"
	"sort"
	"strings"

	"golang.org/x/tools/go/packages"
	"golang.org/x/tools/go/ssa"
	"golang.org/x/tools/go/ssa/ssautil"
)

const modPath = "github.com/youchainhq/go-youchain"

type Prog struct {
	fset     *token.FileSet
	pkgs     map[string]*packages.Package
	ssaProg  *ssa.Program
	ssaPkgs  map[string]*ssa.Package
	db       *ContractDB
	sorts    *Sorts
	repo     string
	verifDir string
	funcs    map[string]*ssa.Function // by String()
	constGl  map[*ssa.Global]bool
	stored   map[*ssa.Global]bool
	loadErrs []string
	mirror   map[string]string // contract files taken from the mirror (missing in the repo)
	findingRegions map[string]string // obligation name -> region of a listed known finding (all properties)
}

// LoadProg loads the given package patterns (relative to the repo module) with the verif tag and builds SSA.
func LoadProg(repo, verifDir string, pkgPaths []string, overlay map[string][]byte) (*Prog, error) {
	fset := token.NewFileSet()
	cfg := &packages.Config{
		Mode:       packages.LoadAllSyntax,
		Dir:        repo,
		Fset:       fset,
		BuildFlags: []string{"-tags=verif", "-mod=mod"},
		Env:        append(os.Environ(), "GOFLAGS=-mod=mod", "GOPROXY=off", "GOSUMDB=off", "GOTOOLCHAIN=local", "CGO_ENABLED=1"),
		Overlay:    overlay,
	}
	var pats []string
	for _, p := range pkgPaths {
		if strings.HasPrefix(p, "std:") {
			pats = append(pats, strings.TrimPrefix(p, "std:"))
		} else if strings.HasPrefix(p, modPath) {
			pats = append(pats, p)
		} else {
			pats = append(pats, modPath+"/"+strings.TrimPrefix(p, "./"))
		}
	}
	initial, err := packages.Load(cfg, pats...)
	if err != nil {
		return nil, err
	}
	cdb := NewContractDB()
	cdb.Overlay = overlay
	p := &Prog{fset: fset, pkgs: map[string]*packages.Package{}, ssaPkgs: map[string]*ssa.Package{}, db: cdb,
		sorts: NewSorts(), repo: repo, verifDir: verifDir, funcs: map[string]*ssa.Function{}, constGl: map[*ssa.Global]bool{}, stored: map[*ssa.Global]bool{}, mirror: map[string]string{}}
	packages.Visit(initial, nil, func(pk *packages.Package) {
		p.pkgs[pk.PkgPath] = pk
		for _, e := range pk.Errors {
			if strings.HasPrefix(pk.PkgPath, modPath) {
				p.loadErrs = append(p.loadErrs, e.Error())
			}
		}
	})
	prog, spkgs := ssautil.AllPackages(initial, ssa.GlobalDebug|ssa.InstantiateGenerics)
	p.ssaProg = prog
	for i, sp := range spkgs {
		if sp == nil {
			return nil, fmt.Errorf("no SSA package for %s (type errors: %v)", initial[i].PkgPath, initial[i].Errors)
		}
		sp.Build()
		p.ssaPkgs[sp.Pkg.Path()] = sp
	}
	// index functions of the built packages (including closures and methods)
	for _, sp := range spkgs {
		p.indexPackage(sp)
	}
	return p, nil
}

func isStd(p string) bool { return !strings.Contains(strings.SplitN(p, "/", 2)[0], ".") }

func (p *Prog) indexPackage(sp *ssa.Package) {
	var add func(fn *ssa.Function)
	add = func(fn *ssa.Function) {
		if fn == nil {
			return
		}
		if _, ok := p.funcs[fn.String()]; ok {
			return
		}
		p.funcs[fn.String()] = fn
		for _, an := range fn.AnonFuncs {
			add(an)
		}
	}
	for _, m := range sp.Members {
		switch m := m.(type) {
		case *ssa.Function:
			add(m)
		case *ssa.Type:
			for _, t := range []types.Type{m.Type(), types.NewPointer(m.Type())} {
				ms := p.ssaProg.MethodSets.MethodSet(t)
				for i := 0; i < ms.Len(); i++ {
					fn := p.ssaProg.MethodValue(ms.At(i))
					if fn != nil && fn.Pkg == sp && fn.Synthetic == "" {
						add(fn)
					}
				}
			}
		}
	}
	// globals: which are stored outside init
	for _, m := range sp.Members {
		if fn, ok := m.(*ssa.Function); ok {
			p.scanStores(fn)
		}
	}
	for _, fn := range p.funcs {
		if fn.Pkg == sp {
			p.scanStores(fn)
		}
	}
}

func (p *Prog) scanStores(fn *ssa.Function) {
	if fn.Name() == "init" || strings.HasPrefix(fn.Name(), "init#") {
		return
	}
	for _, b := range fn.Blocks {
		for _, in := range b.Instrs {
			if st, ok := in.(*ssa.Store); ok {
				if gl, ok := st.Addr.(*ssa.Global); ok {
					p.stored[gl] = true
				}
			}
		}
	}
	for _, an := range fn.AnonFuncs {
		p.scanStores(an)
	}
}

// constGlobal: package-level variables of interface type `error` that are never stored outside init are
// treated as immutable, non-nil, pairwise distinct constants.
func (p *Prog) constGlobal(gl *ssa.Global) bool {
	el := gl.Type().(*types.Pointer).Elem()
	if !types.Identical(el, types.Universe.Lookup("error").Type()) {
		return false
	}
	if gl.Pkg == nil {
		return false
	}
	if _, built := p.ssaPkgs[gl.Pkg.Pkg.Path()]; built && p.stored[gl] {
		return false
	}
	return true
}

// LoadContracts parses verif_contracts*.go of the loaded repo packages and the stdlib spec files.
func (p *Prog) LoadContracts() error {
	var paths []string
	for path := range p.pkgs {
		paths = append(paths, path)
	}
	sort.Strings(paths)
	seen := map[string]bool{}
	for _, path := range paths {
		if !strings.HasPrefix(path, modPath) {
			continue
		}
		rel := strings.TrimPrefix(strings.TrimPrefix(path, modPath), "/")
		dir := filepath.Join(p.repo, rel)
		files, _ := filepath.Glob(filepath.Join(dir, "verif_contracts*.go"))
		have := map[string]bool{}
		for _, f := range files {
			have[filepath.Base(f)] = true
		}
		// mirror fallback for contract files deleted from the working tree
		mfiles, _ := filepath.Glob(filepath.Join(p.verifDir, "contracts-mirror", rel, "verif_contracts*.go"))
		for _, mf := range mfiles {
			if !have[filepath.Base(mf)] {
				files = append(files, mf)
				p.mirror[filepath.Join(rel, filepath.Base(mf))] = "missing in repo; mirror used"
			}
		}
		sort.Strings(files)
		for _, f := range files {
			if seen[f] {
				continue
			}
			seen[f] = true
			if err := p.db.ParseFile(f, path); err != nil {
				p.db.FileErrs[f] = err
			}
		}
	}
	specs, _ := filepath.Glob(filepath.Join(p.verifDir, "specs", "stdlib", "*.spec"))
	sort.Strings(specs)
	for _, f := range specs {
		if err := p.db.ParseFile(f, ""); err != nil {
			if fileProp(f) == "" {
				return err
			}
			p.db.FileErrs[f] = err // a property's own library spec file: fatal for that property's check only
		}
	}
	for _, cs := range p.db.Funcs {
		for _, fc := range cs {
			if strings.Contains(fc.File, "/specs/stdlib/") {
				fc.Trusted = true
				// a library spec file named after a property (c17_math_big.spec) serves that property only
				if len(fc.Props) == 0 {
					if fp := fileProp(fc.File); fp != "" {
						fc.Props = []string{fp}
					}
				}
			}
		}
	}
	return p.db.Validate()
}

// All packages of the transitive closure, for resolving qualified names in contracts.
func (p *Prog) findPackage(from *types.Package, name string) *types.Package {
	if from != nil {
		if from.Name() == name {
			return from
		}
		for _, imp := range from.Imports() {
			if imp.Name() == name {
				return imp
			}
		}
	}
	var cands []*types.Package
	for _, pk := range p.pkgs {
		if pk.Types != nil && (pk.Types.Name() == name || pk.PkgPath == name) {
			cands = append(cands, pk.Types)
		}
	}
	if len(cands) == 1 {
		return cands[0]
	}
	// prefer repo packages
	var repoC []*types.Package
	for _, c := range cands {
		if strings.HasPrefix(c.Path(), modPath) {
			repoC = append(repoC, c)
		}
	}
	if len(repoC) == 1 {
		return repoC[0]
	}
	return nil
}
