package main

import (
	"sync/atomic"
	"encoding/json"
	"fmt"
	"go/types"
	"os"
	"os/exec"
	"path/filepath"
	"strings"

	"golang.org/x/tools/go/ssa"
)

// ---------------------------------------------------------------------------------------------
// Counterexample replay: the solver's model of the inputs is rendered as Go values (by reflection, inside an
// in-package test injected with `go test -overlay`), the REAL function is run on them, and its observable outputs
// (results, panic, post-state of scalar fields reachable from the arguments) are compared with the values the model
// predicts. If they agree, the model describes a real execution, and since the model falsifies the clause, the real
// code violates the clause on that input: the counterexample is confirmed.
// ---------------------------------------------------------------------------------------------

type vnode struct {
	Kind   string // int, bool, big, ptr, struct, bytes, array, nilonly, skip
	Term   string
	Big    string
	Type   types.Type
	Names  []string
	Fields []*vnode
	Elems  []string // element terms (bytes / arrays)
	Len    string
	Path   string
}

type lookupRec struct {
	global *ssa.Global
	mapT   *types.Map
	key    string
	mapV   string
}

type ReplayPlan struct {
	fn      *ssa.Function
	args    []*vnode
	results []*vnode
	post    []*vnode // same shape as args, evaluated in the exit state
	lookups []lookupRec
	lvals   []*vnode
	terms   []string
}

func (g *Gen) heapSymIn(st *State, name string) (string, bool) {
	if st != nil {
		if t, ok := st.h[name]; ok {
			return t, true
		}
		sym := quote(fmt.Sprintf("%s@e%d", name, st.epoch))
		if g.declared[sym] {
			return sym, true
		}
		return "", false
	}
	sym := quote(name + "@e0")
	if g.declared[sym] {
		return sym, true
	}
	return "", false
}

// node builds the value tree of a term of Go type t in state st (nil = entry state), never declaring new symbols.
func (g *Gen) node(term string, t types.Type, st *State, depth int, path string) *vnode {
	n := &vnode{Term: term, Type: t, Path: path, Kind: "skip"}
	if isBigIntPtr(t) {
		n.Kind = "big"
		if h, ok := g.heapSymIn(st, "BigVal"); ok {
			n.Big = app("select", h, term)
		}
		return n
	}
	switch u := t.Underlying().(type) {
	case *types.Basic:
		switch {
		case u.Info()&types.IsBoolean != 0:
			n.Kind = "bool"
		case u.Info()&types.IsInteger != 0:
			n.Kind = "int"
		}
	case *types.Pointer:
		su, ok := u.Elem().Underlying().(*types.Struct)
		if !ok || depth >= 2 {
			n.Kind = "nilonly"
			return n
		}
		n.Kind = "ptr"
		for i := 0; i < su.NumFields(); i++ {
			f := su.Field(i)
			ft := f.Type()
			var fn *vnode
			if at, isArr := ft.Underlying().(*types.Array); isArr {
				heapA := "FA:" + typeStr(u.Elem()) + "." + f.Name()
				id, okID := g.fieldIDs[heapA]
				eh, okE := g.heapSymIn(st, "Elems:"+typeStr(at.Elem()))
				if okID && okE && at.Len() <= 32 && g.sorts.SortOf(at.Elem()) == SInt {
					fn = &vnode{Kind: "array", Type: ft, Path: path + "." + f.Name()}
					ref := app("fa", fmt.Sprint(id), term)
					for k := int64(0); k < at.Len(); k++ {
						fn.Elems = append(fn.Elems, app("select", app("select", eh, ref), fmt.Sprint(k)))
					}
				}
			} else {
				name := "F:" + typeStr(u.Elem()) + "." + f.Name()
				if h, ok := g.heapSymIn(st, name); ok {
					fn = g.node(app("select", h, term), ft, st, depth+1, path+"."+f.Name())
				}
			}
			if fn != nil && fn.Kind != "skip" {
				n.Names = append(n.Names, f.Name())
				n.Fields = append(n.Fields, fn)
			}
		}
	case *types.Slice:
		if b, ok := u.Elem().Underlying().(*types.Basic); ok && b.Kind() == types.Uint8 {
			n.Kind = "bytes"
			n.Len = app("sl.len", term)
			if eh, ok := g.heapSymIn(st, "Elems:"+typeStr(u.Elem())); ok {
				for k := 0; k < 48; k++ {
					n.Elems = append(n.Elems, app("select", app("select", eh, app("sl.base", term)), app("+", app("sl.off", term), fmt.Sprint(k))))
				}
			}
		} else {
			n.Kind = "nilonly"
			n.Term = app("sl.base", term)
		}
	case *types.Struct:
		dt := g.sorts.structDT(t, u)
		n.Kind = "struct"
		for i := 0; i < u.NumFields(); i++ {
			fn := g.node(app(dt.Fields[i].Name, term), u.Field(i).Type(), st, depth+1, path+"."+u.Field(i).Name())
			if fn.Kind != "skip" && fn.Kind != "nilonly" {
				n.Names = append(n.Names, u.Field(i).Name())
				n.Fields = append(n.Fields, fn)
			}
		}
	case *types.Interface, *types.Map, *types.Chan, *types.Signature:
		n.Kind = "nilonly"
	}
	return n
}

func (n *vnode) collect(out *[]string) {
	if n == nil {
		return
	}
	switch n.Kind {
	case "int", "bool", "nilonly":
		*out = append(*out, n.Term)
	case "big":
		*out = append(*out, n.Term)
		if n.Big != "" {
			*out = append(*out, n.Big)
		}
	case "ptr":
		*out = append(*out, n.Term)
	case "bytes":
		*out = append(*out, n.Len, app("=", n.Term, "nilslice"))
	}
	*out = append(*out, n.Elems...)
	for _, f := range n.Fields {
		f.collect(out)
	}
}

// buildReplayPlan is called once per verified function, after the body has been translated.
func (fr *Frame) buildReplayPlan(exit *State, results []Val) *ReplayPlan {
	g := fr.g
	fn := fr.fn
	if fn.Parent() != nil || len(fn.FreeVars) > 0 {
		return nil // closures cannot be called from a test
	}
	rp := &ReplayPlan{fn: fn, lookups: g.lookups}
	for i, p := range fn.Params {
		v := fr.vals[p]
		rp.args = append(rp.args, g.node(v.T, p.Type(), nil, 0, fmt.Sprintf("arg%d", i)))
		rp.post = append(rp.post, g.node(v.T, p.Type(), exit, 0, fmt.Sprintf("arg%d", i)))
	}
	for i, r := range results {
		rp.results = append(rp.results, g.node(r.T, r.Go, exit, 1, fmt.Sprintf("res%d", i)))
	}
	for _, l := range rp.lookups {
		_, val, _ := g.mapHeaps(l.mapT)
		dom := strings.Replace(val, "MapVal:", "MapDom:", 1)
		dh, ok1 := g.heapSymIn(nil, dom)
		vh, ok2 := g.heapSymIn(nil, val)
		if !ok1 || !ok2 {
			rp.lvals = append(rp.lvals, nil)
			continue
		}
		n := g.node(app("select", app("select", vh, l.mapV), l.key), l.mapT.Elem(), nil, 1, "lookup")
		n.Len = app("select", app("select", dh, l.mapV), l.key) // presence
		rp.lvals = append(rp.lvals, n)
	}
	for _, n := range rp.args {
		n.collect(&rp.terms)
	}
	for _, n := range rp.post {
		n.collect(&rp.terms)
	}
	for _, n := range rp.results {
		n.collect(&rp.terms)
	}
	for i, n := range rp.lvals {
		if n != nil {
			rp.terms = append(rp.terms, rp.lookups[i].key, n.Len)
			n.collect(&rp.terms)
		}
	}
	return rp
}

// ---------------------------------------------------------------------------------------------

type modelVals map[string]string

func smtInt(s string) (string, bool) {
	s = strings.TrimSpace(s)
	if strings.HasPrefix(s, "(- ") && strings.HasSuffix(s, ")") {
		in := strings.TrimSpace(s[3 : len(s)-1])
		if isDigits(in) {
			return "-" + in, true
		}
		return "", false
	}
	if isDigits(s) {
		return s, true
	}
	return "", false
}

func isDigits(s string) bool {
	if s == "" {
		return false
	}
	for _, c := range s {
		if c < '0' || c > '9' {
			return false
		}
	}
	return true
}

// spec renders a value tree under a model as a JSON-able value specification.
func (n *vnode) spec(m modelVals) (map[string]interface{}, bool) {
	switch n.Kind {
	case "int":
		v, ok := smtInt(m[n.Term])
		if !ok {
			return nil, false
		}
		return map[string]interface{}{"k": "int", "v": v}, true
	case "bool":
		return map[string]interface{}{"k": "bool", "v": m[n.Term] == "true"}, true
	case "nilonly":
		v, ok := smtInt(m[n.Term])
		if ok && v == "0" {
			return map[string]interface{}{"k": "nil"}, true
		}
		return map[string]interface{}{"k": "opaque"}, true
	case "big":
		ref, ok := smtInt(m[n.Term])
		if !ok {
			return nil, false
		}
		if ref == "0" {
			return map[string]interface{}{"k": "nil"}, true
		}
		v := "0"
		if n.Big != "" {
			if bv, ok := smtInt(m[n.Big]); ok {
				v = bv
			}
		}
		return map[string]interface{}{"k": "big", "id": ref, "v": v}, true
	case "ptr":
		ref, ok := smtInt(m[n.Term])
		if !ok {
			return nil, false
		}
		if ref == "0" {
			return map[string]interface{}{"k": "nil"}, true
		}
		fs := map[string]interface{}{}
		for i, f := range n.Fields {
			if s, ok := f.spec(m); ok {
				fs[n.Names[i]] = s
			}
		}
		return map[string]interface{}{"k": "ptr", "id": ref, "f": fs}, true
	case "struct":
		fs := map[string]interface{}{}
		for i, f := range n.Fields {
			if s, ok := f.spec(m); ok {
				fs[n.Names[i]] = s
			}
		}
		return map[string]interface{}{"k": "struct", "f": fs}, true
	case "array":
		var vs []string
		for _, e := range n.Elems {
			v, ok := smtInt(m[e])
			if !ok {
				v = "0"
			}
			vs = append(vs, v)
		}
		return map[string]interface{}{"k": "array", "v": vs}, true
	case "bytes":
		if m[app("=", n.Term, "nilslice")] == "true" {
			return map[string]interface{}{"k": "nil"}, true
		}
		ln, ok := smtInt(m[n.Len])
		if !ok {
			return nil, false
		}
		var l int
		fmt.Sscan(ln, &l)
		if l > len(n.Elems) || l < 0 {
			return nil, false
		}
		vs := []string{}
		for _, e := range n.Elems[:l] {
			v, ok := smtInt(m[e])
			if !ok {
				v = "0"
			}
			vs = append(vs, v)
		}
		return map[string]interface{}{"k": "bytes", "v": vs}, true
	}
	return nil, false
}

// observe flattens the scalar observables of a tree under a model: path -> value.
func (n *vnode) observe(m modelVals, out map[string]string) {
	switch n.Kind {
	case "int":
		if v, ok := smtInt(m[n.Term]); ok {
			out[n.Path] = v
		}
	case "bool":
		out[n.Path] = m[n.Term]
	case "nilonly":
		if v, ok := smtInt(m[n.Term]); ok {
			if v == "0" {
				out[n.Path+"#nil"] = "true"
			} else {
				out[n.Path+"#nil"] = "false"
			}
		}
	case "big":
		if v, ok := smtInt(m[n.Term]); ok {
			if v == "0" {
				out[n.Path+"#nil"] = "true"
			} else {
				out[n.Path+"#nil"] = "false"
				if n.Big != "" {
					if bv, ok := smtInt(m[n.Big]); ok {
						out[n.Path] = bv
					}
				}
			}
		}
	case "ptr":
		if v, ok := smtInt(m[n.Term]); ok {
			if v == "0" {
				out[n.Path+"#nil"] = "true"
				return
			}
			out[n.Path+"#nil"] = "false"
		}
		for _, f := range n.Fields {
			f.observe(m, out)
		}
	case "struct":
		for _, f := range n.Fields {
			f.observe(m, out)
		}
	}
}

func goFuncExpr(fn *ssa.Function) (expr string, ok bool) {
	if fn.Signature.Recv() == nil {
		return fn.Name(), true
	}
	rt := fn.Signature.Recv().Type()
	star := ""
	if p, isP := rt.(*types.Pointer); isP {
		star = "*"
		rt = p.Elem()
	}
	nt, isN := rt.(*types.Named)
	if !isN {
		return "", false
	}
	return "(" + star + nt.Obj().Name() + ")." + fn.Name(), true
}

const replayTestTemplate = `package %s

import (
	"encoding/json"
	"fmt"
	"math/big"
	"reflect"
	"testing"
	"unsafe"
%s
)

var _ = big.NewInt
var _ = unsafe.Pointer(nil)

func zzSet(dst reflect.Value, v reflect.Value) {
	if !dst.CanSet() {
		dst = reflect.NewAt(dst.Type(), unsafe.Pointer(dst.UnsafeAddr())).Elem()
	}
	dst.Set(v)
}

func zzBuild(t reflect.Type, s map[string]interface{}, objs map[string]reflect.Value) reflect.Value {
	v := reflect.New(t).Elem()
	if s == nil {
		return v
	}
	switch s["k"] {
	case "int":
		n, _ := new(big.Int).SetString(s["v"].(string), 10)
		switch t.Kind() {
		case reflect.Int, reflect.Int8, reflect.Int16, reflect.Int32, reflect.Int64:
			v.SetInt(n.Int64())
		case reflect.Uint, reflect.Uint8, reflect.Uint16, reflect.Uint32, reflect.Uint64, reflect.Uintptr:
			v.SetUint(n.Uint64())
		}
	case "bool":
		v.SetBool(s["v"].(bool))
	case "opaque":
		// non-nil value whose content the model does not describe: an empty object of the right kind
		switch t.Kind() {
		case reflect.Map:
			return reflect.MakeMap(t)
		case reflect.Slice:
			return reflect.MakeSlice(t, 0, 0)
		case reflect.Ptr:
			return reflect.New(t.Elem())
		case reflect.Chan:
			return reflect.MakeChan(t, 1)
		}
	case "big":
		id := "big" + s["id"].(string)
		if o, ok := objs[id]; ok {
			return o
		}
		n, _ := new(big.Int).SetString(s["v"].(string), 10)
		o := reflect.ValueOf(n)
		objs[id] = o
		return o
	case "ptr":
		id := t.String() + s["id"].(string)
		if o, ok := objs[id]; ok {
			return o
		}
		o := reflect.New(t.Elem())
		objs[id] = o
		zzFill(o.Elem(), s["f"].(map[string]interface{}), objs)
		return o
	case "struct":
		zzFill(v, s["f"].(map[string]interface{}), objs)
	case "array":
		for i, e := range s["v"].([]interface{}) {
			n, _ := new(big.Int).SetString(e.(string), 10)
			if i < v.Len() {
				v.Index(i).SetUint(n.Uint64())
			}
		}
	case "bytes":
		es := s["v"].([]interface{})
		b := make([]byte, len(es))
		for i, e := range es {
			n, _ := new(big.Int).SetString(e.(string), 10)
			b[i] = byte(n.Uint64())
		}
		v = reflect.ValueOf(b).Convert(t)
	}
	return v
}

func zzFill(dst reflect.Value, fs map[string]interface{}, objs map[string]reflect.Value) {
	for name, fv := range fs {
		f := dst.FieldByName(name)
		if !f.IsValid() {
			continue
		}
		zzSet(f, zzBuild(f.Type(), fv.(map[string]interface{}), objs))
	}
}

func zzObserve(path string, v reflect.Value, depth int, out map[string]string) {
	if !v.IsValid() {
		return
	}
	if !v.CanInterface() && v.CanAddr() {
		v = reflect.NewAt(v.Type(), unsafe.Pointer(v.UnsafeAddr())).Elem()
	}
	if v.Type() == reflect.TypeOf((*big.Int)(nil)) {
		if v.IsNil() {
			out[path+"#nil"] = "true"
		} else {
			out[path+"#nil"] = "false"
			out[path] = v.Interface().(*big.Int).String()
		}
		return
	}
	switch v.Kind() {
	case reflect.Int, reflect.Int8, reflect.Int16, reflect.Int32, reflect.Int64:
		out[path] = fmt.Sprint(v.Int())
	case reflect.Uint, reflect.Uint8, reflect.Uint16, reflect.Uint32, reflect.Uint64, reflect.Uintptr:
		out[path] = fmt.Sprint(v.Uint())
	case reflect.Bool:
		out[path] = fmt.Sprint(v.Bool())
	case reflect.Ptr:
		if v.IsNil() {
			out[path+"#nil"] = "true"
			return
		}
		out[path+"#nil"] = "false"
		if depth < 2 && v.Elem().Kind() == reflect.Struct {
			zzObserve(path, v.Elem(), depth, out)
		}
	case reflect.Struct:
		for i := 0; i < v.NumField(); i++ {
			f := v.Field(i)
			fp := path + "." + v.Type().Field(i).Name
			switch f.Kind() {
			case reflect.Ptr, reflect.Struct:
				if f.Type() == reflect.TypeOf((*big.Int)(nil)) || depth < 1 {
					zzObserve(fp, f, depth+1, out)
				} else if f.Kind() == reflect.Ptr {
					out[fp+"#nil"] = fmt.Sprint(f.IsNil())
				}
			case reflect.Interface, reflect.Map, reflect.Chan, reflect.Func, reflect.Slice:
				out[fp+"#nil"] = fmt.Sprint(f.IsNil())
			default:
				zzObserve(fp, f, depth+1, out)
			}
		}
	case reflect.Interface, reflect.Map, reflect.Chan, reflect.Func, reflect.Slice:
		out[path+"#nil"] = fmt.Sprint(v.IsNil())
	}
}

func TestZZVerifReplay(t *testing.T) {
	var spec struct {
		Args    []map[string]interface{}
		Lookups []struct {
			Present bool
			Key     map[string]interface{}
			Val     map[string]interface{}
		}
	}
	if err := json.Unmarshal([]byte(%s), &spec); err != nil {
		t.Fatal(err)
	}
	objs := map[string]reflect.Value{}
	fn := reflect.ValueOf(%s)
	args := make([]reflect.Value, fn.Type().NumIn())
	for i := range args {
		args[i] = zzBuild(fn.Type().In(i), spec.Args[i], objs)
	}
%s
	var outs []reflect.Value
	pv := func() (p interface{}) {
		defer func() { p = recover() }()
		outs = fn.Call(args)
		return nil
	}()
	obs := map[string]string{}
	obs["panicked"] = fmt.Sprint(pv != nil)
	if pv != nil {
		obs["panic"] = fmt.Sprint(pv)
	}
	for i, o := range outs {
		zzObserve(fmt.Sprintf("res%%d", i), o, 1, obs)
	}
	for i, a := range args {
		zzObserve(fmt.Sprintf("arg%%d", i), a, 0, obs)
	}
	js, _ := json.Marshal(obs)
	fmt.Println("VERIF-REPLAY-RESULT " + string(js))
}
`

// tryReplay renders the model of a failed obligation as a Go test against the real function and compares outputs.
func tryReplay(o checkOpts, r *ObligResult, p *Prog, base string, model map[string]string) (confirmed bool, testPath string, output string) {
	g := r.O.Gen
	rp := g.replay
	if rp == nil || (r.O.Kind != "ensures" && r.O.Kind != "panic" && r.O.Kind != "frame") || len(g.inlineStk) > 0 {
		return false, "", ""
	}
	if r.O.Kind == "panic" && strings.Contains(r.O.Name, "#"+"(") {
		// panic inside an inlined callee: still observable as a panic of the root function
	}
	// 1. second solver call: values of all terms of the plan
	script := r.O.Script(false)
	if r.Res.Status != "sat" {
		script = r.O.CandidateScript()
	}
	var terms []string
	seen := map[string]bool{}
	for _, t := range rp.terms {
		if !seen[t] {
			seen[t] = true
			terms = append(terms, t)
		}
	}
	if len(terms) == 0 {
		return false, "", ""
	}
	script += "(get-value (" + strings.Join(terms, "\n ") + "))\n"
	qfile := base + ".model.smt2"
	os.WriteFile(qfile, []byte(script), 0o644)
	// the solvers find models of different goals: try each in turn (the one that answered the obligation first)
	order := []string{"z3-new", "cvc5", "z3"}
	if r.Res.Solver == "z3" || r.Res.Solver == "cvc5" {
		order = append([]string{r.Res.Solver}, order...)
	}
	outs := ""
	tried := map[string]bool{}
	for _, solver := range order {
		if tried[solver] {
			continue
		}
		tried[solver] = true
		args := []string{"-T:12", qfile}
		if solver == "cvc5" {
			args = []string{"--tlimit=12000", qfile}
		}
		outb, _ := exec.Command(solver, args...).CombinedOutput()
		outs = string(outb)
		if strings.HasPrefix(strings.TrimSpace(outs), "sat") {
			break
		}
	}
	if !strings.HasPrefix(strings.TrimSpace(outs), "sat") {
		return false, "", "model query: " + firstLines(outs, 3)
	}
	m := modelVals(parseGetValueTerms(outs, terms))
	// 2. input specification
	type lk struct {
		Present bool
		Key     map[string]interface{}
		Val     map[string]interface{}
	}
	spec := struct {
		Args    []map[string]interface{}
		Lookups []lk
	}{}
	for _, a := range rp.args {
		s, ok := a.spec(m)
		if !ok {
			return false, "", "argument " + a.Path + " cannot be rendered from the model"
		}
		if s["k"] == "opaque" {
			return false, "", "argument " + a.Path + " has a type that cannot be rendered (interface, map, function, channel)"
		}
		spec.Args = append(spec.Args, s)
	}
	imports := ""
	globalsCode := ""
	for i, l := range rp.lookups {
		n := rp.lvals[i]
		if n == nil {
			continue
		}
		if l.global == nil || !l.global.Object().Exported() && l.global.Pkg != rp.fn.Pkg {
			return false, "", "the function reads a map that cannot be set from a test"
		}
		kv, ok := smtInt(m[l.key])
		if !ok {
			return false, "", "map key not renderable"
		}
		vs, ok := n.spec(m)
		if !ok {
			return false, "", "map value not renderable"
		}
		spec.Lookups = append(spec.Lookups, lk{Present: m[n.Len] == "true", Key: map[string]interface{}{"k": "int", "v": kv}, Val: vs})
		gname := l.global.Name()
		if l.global.Pkg != rp.fn.Pkg {
			imports += fmt.Sprintf("\tzzpkg%d %q\n", i, l.global.Pkg.Pkg.Path())
			gname = fmt.Sprintf("zzpkg%d.%s", i, l.global.Name())
		}
		j := len(spec.Lookups) - 1
		globalsCode += fmt.Sprintf(`	{
		mv := reflect.ValueOf(&%s).Elem()
		if mv.IsNil() {
			mv.Set(reflect.MakeMap(mv.Type()))
		}
		k := zzBuild(mv.Type().Key(), spec.Lookups[%d].Key, objs)
		saved := mv.MapIndex(k)
		defer mv.SetMapIndex(k, saved)
		if spec.Lookups[%d].Present {
			mv.SetMapIndex(k, zzBuild(mv.Type().Elem(), spec.Lookups[%d].Val, objs))
		} else {
			mv.SetMapIndex(k, reflect.Value{})
		}
	}
`, gname, j, j, j)
	}
	fexpr, ok := goFuncExpr(rp.fn)
	if !ok {
		return false, "", "function expression not renderable"
	}
	specJSON, _ := json.Marshal(spec)
	pkgName := rp.fn.Pkg.Pkg.Name()
	src := fmt.Sprintf(replayTestTemplate, pkgName, imports, fmt.Sprintf("%q", string(specJSON)), fexpr, globalsCode)
	testPath = base + "_replay_test.go"
	os.WriteFile(testPath, []byte(src), 0o644)
	rel := strings.TrimPrefix(strings.TrimPrefix(rp.fn.Pkg.Pkg.Path(), modPath), "/")
	target := filepath.Join(o.repo, rel, "zz_verif_replay_test.go")
	ov := map[string]interface{}{"Replace": map[string]string{target: testPath}}
	// mutants applied in memory must also be applied to the replayed build
	for path, content := range o.overlay {
		tmp := base + ".ov." + fileSafe(filepath.Base(path))
		os.WriteFile(tmp, content, 0o644)
		ov["Replace"].(map[string]string)[path] = tmp
	}
	ovPath := base + ".overlay.json"
	writeJSON(ovPath, ov)
	cmd := exec.Command("bash", "-c", fmt.Sprintf("ulimit -v 8000000; cd %s && go test -v -overlay %s -vet=off -count=1 -timeout 60s -run '^TestZZVerifReplay$' ./%s/ 2>&1", o.repo, ovPath, rel))
	cmd.Env = append(os.Environ(), "GOFLAGS=-mod=mod", "GOPROXY=off", "GOSUMDB=off", "GOTOOLCHAIN=local")
	tout, _ := cmd.CombinedOutput()
	output = string(tout)
	idx := strings.Index(output, "VERIF-REPLAY-RESULT ")
	if idx < 0 {
		return false, testPath, output
	}
	line := output[idx+len("VERIF-REPLAY-RESULT "):]
	if j := strings.Index(line, "\n"); j >= 0 {
		line = line[:j]
	}
	real := map[string]string{}
	if json.Unmarshal([]byte(line), &real) != nil {
		return false, testPath, output
	}
	// 3. compare with the model's predictions
	if r.O.Kind == "panic" {
		if real["panicked"] == "true" {
			return true, testPath, "the real function panics on the model's input: " + real["panic"]
		}
		return false, testPath, "the real function does not panic on the model's input\n" + line
	}
	if real["panicked"] == "true" {
		return false, testPath, "the real function panics on the model's input (the clause is about normal return)\n" + line
	}
	pred := map[string]string{}
	for _, n := range rp.results {
		n.observe(m, pred)
	}
	for _, n := range rp.post {
		n.observe(m, pred)
	}
	var diffs []string
	ncmp := 0
	for k, v := range pred {
		rv, ok := real[k]
		if !ok {
			continue
		}
		ncmp++
		if rv != v {
			diffs = append(diffs, fmt.Sprintf("%s: model %s, real %s", k, v, rv))
		}
	}
	if len(diffs) > 0 {
		return false, testPath, "real outputs differ from the model's prediction: " + strings.Join(diffs, "; ") + "\n" + line
	}
	if ncmp == 0 {
		return false, testPath, "no comparable observable\n" + line
	}
	return true, testPath, fmt.Sprintf("the real function's %d observable outputs (results and post-state of the arguments) equal the values of the falsifying model\n%s", ncmp, line)
}

// parseGetValueTerms parses "((t1 v1) (t2 v2) …)" where the terms are echoed; pairs are matched by position.
func parseGetValueTerms(out string, terms []string) map[string]string {
	res := map[string]string{}
	i := strings.Index(out, "((")
	if i < 0 {
		return res
	}
	body := out[i+1:]
	depth := 0
	start := -1
	inq := false
	var pairs []string
	for k := 0; k < len(body); k++ {
		c := body[k]
		if c == '|' {
			inq = !inq
		}
		if inq {
			continue
		}
		if c == '(' {
			if depth == 0 {
				start = k
			}
			depth++
		} else if c == ')' {
			depth--
			if depth == 0 && start >= 0 {
				pairs = append(pairs, body[start+1:k])
				start = -1
			}
			if depth < 0 {
				break
			}
		}
	}
	for idx, pr := range pairs {
		if idx >= len(terms) {
			break
		}
		// value = the last top-level s-expression of the pair
		pr = strings.TrimSpace(pr)
		d := 0
		q := false
		last := 0
		for k := 0; k < len(pr); k++ {
			c := pr[k]
			if c == '|' {
				q = !q
			}
			if q {
				continue
			}
			if c == '(' {
				d++
			} else if c == ')' {
				d--
			} else if (c == ' ' || c == '\n') && d == 0 {
				last = k + 1
			}
		}
		res[terms[idx]] = strings.TrimSpace(pr[last:])
	}
	return res
}

// writeReplay records a failed obligation: the obligation, the solver's answer and model values, the script.
func writeReplay(dir string, o checkOpts, r *ObligResult, p *Prog) string {
	os.MkdirAll(dir, 0o755)
	base := filepath.Join(dir, fileSafe(r.O.Name))
	script, _ := os.ReadFile(r.Script)
	os.WriteFile(base+".smt2", script, 0o644)
	os.WriteFile(base+".out", []byte(r.Res.Output), 0o644)
	model := map[string]string{}
	if r.Res.Status == "sat" {
		model = parseGetValue(r.Res.Output, r.O.VNames)
	}
	rec := map[string]interface{}{
		"property":      o.prop,
		"obligation":    r.O.Name,
		"kind":          r.O.Kind,
		"function":      r.O.Func,
		"clause":        r.O.Src,
		"position":      r.O.Pos,
		"solver_status": r.Res.Status,
		"solver":        r.Res.Solver,
		"solver_output": firstLines(r.Res.Output, 60),
		"model_inputs":  model,
		"script":        base + ".smt2",
	}
	if r.Known != nil {
		rec["note"] = "violation of a clause with a listed known finding, but OUTSIDE the listed region: a different defect"
	}
	r.Replayed = false
	// A quantified goal that fails usually ends as unknown/timeout, not sat. The model query of tryReplay is the same script
	// WITHOUT the engine's quantified heap axioms: any model of it is only a candidate, and it counts only if the real code,
	// run on the model's inputs, produces the outputs the model predicts (refutations are trusted only when they replay).
	candidate := r.Res.Status == "sat" || r.Res.Status == "unknown" || r.Res.Status == "timeout"
	if candidate && r.Res.Status != "sat" && o.replayBudget != nil {
		if atomic.AddInt32(o.replayBudget, -1) < 0 {
			candidate = false
		}
	}
	if candidate && !o.noReplay {
		ok, testPath, outp := tryReplay(o, r, p, base, model)
		if testPath != "" {
			rec["replay_test"] = testPath
			rec["replay_cmd"] = fmt.Sprintf("cd %s && go test -overlay %s.overlay.json -vet=off -count=1 -run '^TestZZVerifReplay$' ./<pkg>/", o.repo, base)
		}
		if outp != "" {
			rec["replay_output"] = firstLines(outp, 40)
		}
		rec["replay_confirmed"] = ok
		r.Replayed = ok
	}
	if !r.Replayed {
		if r.Res.Status == "sat" || rec["replay_output"] != nil {
			rec["explanation"] = "the verifier found a model of the negated obligation; it could not be rendered or did not reproduce as a failing concrete input (no-failing-input-found)"
		} else {
			rec["explanation"] = "the obligation is discharged on the committed tree and is not accepted by the verifier on this tree (solver: " + r.Res.Status + "); no counterexample available (no-failing-input-found)"
		}
	} else {
		rec["explanation"] = "counterexample confirmed against the real code: the function was run on the model's inputs and its observable outputs equal the model's, so the clause is violated by the real code on this input"
	}
	writeJSON(base+".json", rec)
	return base + ".json"
}

// parseGetValue extracts the values of an in-script get-value answer, in the order of names.
func parseGetValue(out string, names []string) map[string]string {
	terms := make([]string, len(names))
	for i := range names {
		terms[i] = fmt.Sprint(i)
	}
	vals := parseGetValueTerms(out, terms)
	res := map[string]string{}
	for i, n := range names {
		res[n] = vals[fmt.Sprint(i)]
	}
	return res
}
