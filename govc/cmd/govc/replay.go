package main

import (
	"os"
	"path/filepath"
	"strings"
)

// writeReplay records a failed obligation: the obligation, the solver's answer and model values, the script.
func writeReplay(dir string, o checkOpts, r *ObligResult, p *Prog) string {
	os.MkdirAll(dir, 0o755)
	base := filepath.Join(dir, fileSafe(r.O.Name))
	script, _ := os.ReadFile(r.Script)
	os.WriteFile(base+".smt2", script, 0o644)
	os.WriteFile(base+".out", []byte(r.Res.Output), 0o644)
	model := map[string]string{}
	if r.Res.Status == "sat" {
		model = parseGetValue(r.Res.Output, r.O.VNames)
	}
	rec := map[string]interface{}{
		"property":      o.prop,
		"obligation":    r.O.Name,
		"kind":          r.O.Kind,
		"function":      r.O.Func,
		"clause":        r.O.Src,
		"position":      r.O.Pos,
		"solver_status": r.Res.Status,
		"solver":        r.Res.Solver,
		"solver_output": firstLines(r.Res.Output, 60),
		"model_inputs":  model,
		"script":        base + ".smt2",
	}
	if r.Known != nil {
		rec["note"] = "violation of a clause with a listed known finding, but OUTSIDE the listed region: a different defect"
	}
	r.Replayed = false
	if r.Res.Status == "sat" {
		if ok, testPath, outp := tryReplay(o, r, p, base, model); testPath != "" {
			rec["replay_test"] = testPath
			rec["replay_output"] = firstLines(outp, 40)
			rec["replay_confirmed"] = ok
			r.Replayed = ok
		}
	}
	if !r.Replayed {
		if r.Res.Status == "sat" {
			rec["explanation"] = "the verifier found a model of the negated obligation; it could not be rendered or did not reproduce as a failing concrete input (no-failing-input-found)"
		} else {
			rec["explanation"] = "the obligation is discharged on the committed tree and is not accepted by the verifier on this tree (solver: " + r.Res.Status + "); no counterexample available (no-failing-input-found)"
		}
	}
	writeJSON(base+".json", rec)
	return base + ".json"
}

// parseGetValue extracts "(term value)" pairs from a get-value answer, in the order of names.
func parseGetValue(out string, names []string) map[string]string {
	res := map[string]string{}
	i := strings.Index(out, "((")
	if i < 0 {
		return res
	}
	body := out[i+1:]
	// split top-level pairs
	depth := 0
	start := -1
	var pairs []string
	for k := 0; k < len(body); k++ {
		switch body[k] {
		case '(':
			if depth == 0 {
				start = k
			}
			depth++
		case ')':
			depth--
			if depth == 0 && start >= 0 {
				pairs = append(pairs, body[start+1:k])
				start = -1
			}
			if depth < 0 {
				k = len(body)
			}
		}
	}
	for idx, pr := range pairs {
		if idx >= len(names) {
			break
		}
		// the term is first; value is the rest. Terms are symbols (possibly |quoted|).
		pr = strings.TrimSpace(pr)
		var val string
		if strings.HasPrefix(pr, "|") {
			j := strings.Index(pr[1:], "|")
			val = strings.TrimSpace(pr[j+2:])
		} else if j := strings.IndexAny(pr, " \n\t"); j >= 0 {
			val = strings.TrimSpace(pr[j+1:])
		}
		res[names[idx]] = val
	}
	return res
}
