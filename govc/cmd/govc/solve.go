package main

import (
	"bytes"
	"context"
	"fmt"
	"os"
	"os/exec"
	"path/filepath"
	"regexp"
	"strings"
	"sync"
	"time"
)

type SolveResult struct {
	Status  string // "unsat", "sat", "unknown", "timeout", "error"
	Solver  string
	Time    float64
	Output  string
	Answers map[string]string // per solver (thorough cross-check)
}

type solverSpec struct {
	name string
	args func(file string, timeoutS int, seed int) []string
}

var solvers = []solverSpec{
	{"z3-new", func(f string, t int, seed int) []string {
		return []string{"z3-new", fmt.Sprintf("-T:%d", t), fmt.Sprintf("smt.random_seed=%d", seed), fmt.Sprintf("sat.random_seed=%d", seed), f}
	}},
	{"z3", func(f string, t int, seed int) []string {
		return []string{"z3", fmt.Sprintf("-T:%d", t), fmt.Sprintf("smt.random_seed=%d", seed), fmt.Sprintf("sat.random_seed=%d", seed), f}
	}},
	{"cvc5", func(f string, t int, seed int) []string {
		// --enum-inst: enumerative instantiation when E-matching saturates (without it cvc5 answers `unknown` at once on
		// almost every quantified goal; with it it proves goals both z3 versions lose in instantiation detours)
		return []string{"cvc5", "--incremental", "--enum-inst", fmt.Sprintf("--tlimit=%d", t*1000), fmt.Sprintf("--seed=%d", seed), f}
	}},
}

// raceSolvers: the second stage adds two re-seeded z3 runs — quantifier instantiation is sensitive to irrelevant perturbations
// (symbol numbering, an extra axiom), and a goal one seed loses in a matching detour another seed proves in under a second.
var raceSolvers = append(append([]solverSpec{}, solvers...),
	solverSpec{"z3-new/s7", func(f string, t int, seed int) []string {
		return []string{"z3-new", fmt.Sprintf("-T:%d", t), fmt.Sprintf("smt.random_seed=%d", seed+7), fmt.Sprintf("sat.random_seed=%d", seed+7), f}
	}},
	solverSpec{"z3/s11", func(f string, t int, seed int) []string {
		return []string{"z3", fmt.Sprintf("-T:%d", t), fmt.Sprintf("smt.random_seed=%d", seed+11), fmt.Sprintf("sat.random_seed=%d", seed+11), f}
	}},
)

// wallFactor: the time limit of a solver run is a CPU-time limit (ulimit -t), so that a verdict does not depend on how loaded
// the machine is (a goal that needs 2 s of CPU must not time out because 100 other processes compete for the cores); the
// wall-clock limit is only a backstop, wallFactor times larger (load 250 on 16 cores was seen while building this).
const wallFactor = 30

func runSolver(ctx context.Context, s solverSpec, file string, timeoutS int, seed int) (status string, out string, dur float64) {
	args := s.args(file, timeoutS*wallFactor, seed)
	cctx, cancel := context.WithTimeout(ctx, time.Duration(timeoutS*wallFactor+5)*time.Second)
	defer cancel()
	sh := fmt.Sprintf("ulimit -t %d; exec \"$@\"", timeoutS)
	cmd := exec.CommandContext(cctx, "sh", append([]string{"-c", sh, "sh"}, args...)...)
	var buf bytes.Buffer
	cmd.Stdout = &buf
	cmd.Stderr = &buf
	t0 := time.Now()
	runErr := cmd.Run()
	dur = time.Since(t0).Seconds()
	out = buf.String()
	first := strings.TrimSpace(strings.SplitN(out, "\n", 2)[0])
	// errors BEFORE the check-sat answer mean the script was (partly) rejected; errors after it come from the trailing
	// get-value on an unsat/unknown answer and are harmless
	for _, ln := range strings.Split(out, "\n") {
		t := strings.TrimSpace(ln)
		if t == "sat" || t == "unsat" || t == "unknown" || t == "timeout" {
			first = t
			break
		}
		if strings.HasPrefix(t, "(error ") {
			return "error", out, dur
		}
	}
	switch first {
	case "sat", "unsat", "unknown":
		return first, out, dur
	case "timeout":
		return "timeout", out, dur
	}
	if cctx.Err() != nil {
		return "timeout", out, dur
	}
	if ee, ok := runErr.(*exec.ExitError); ok && !ee.Exited() {
		return "timeout", out, dur // killed by the CPU-time limit (SIGXCPU / SIGKILL)
	}
	if strings.Contains(out, "error") || strings.Contains(out, "Error") {
		return "error", out, dur
	}
	return "unknown", out, dur
}

// solve runs the portfolio on one script. quick: z3-new alone for a short slice first, then all three raced.
func solve(file string, timeoutS int, seed int, crossCheck bool) SolveResult {
	ctx := context.Background()
	if !crossCheck {
		first := timeoutS
		if first > 3 {
			first = 3
		}
		st, out, d := runSolver(ctx, solvers[0], file, first, seed)
		if st == "sat" || st == "unsat" {
			return SolveResult{Status: st, Solver: solvers[0].name, Time: d, Output: out}
		}
	}
	type ans struct {
		st, out, name string
		d             float64
	}
	rctx, cancel := context.WithCancel(ctx)
	defer cancel()
	solvers := raceSolvers
	ch := make(chan ans, len(solvers))
	for _, s := range solvers {
		s := s
		go func() {
			st, out, d := runSolver(rctx, s, file, timeoutS, seed)
			ch <- ans{st, out, s.name, d}
		}()
	}
	res := SolveResult{Status: "unknown", Answers: map[string]string{}}
	var errOut string
	for i := 0; i < len(solvers); i++ {
		a := <-ch
		res.Answers[a.name] = a.st
		if a.st == "error" {
			errOut += a.name + ": " + firstLines(a.out, 3) + "\n"
		}
		if a.st == "sat" || a.st == "unsat" {
			if res.Status == "unknown" || res.Status == "timeout" {
				res.Status, res.Solver, res.Time, res.Output = a.st, a.name, a.d, a.out
				if !crossCheck {
					cancel()
					return res
				}
			} else if res.Status != a.st {
				res.Status = "disagree"
				res.Output += "\n--- " + a.name + " answered " + a.st
			}
		} else if res.Status == "unknown" && a.st == "timeout" {
			res.Status = "timeout"
			res.Time = a.d
		}
	}
	if res.Status == "unknown" || res.Status == "timeout" {
		res.Output = errOut
		nerr := 0
		for _, a := range res.Answers {
			if a == "error" {
				nerr++
			}
		}
		if nerr == len(solvers) {
			res.Status = "error"
		}
	}
	return res
}

func firstLines(s string, n int) string {
	ls := strings.Split(s, "\n")
	if len(ls) > n {
		ls = ls[:n]
	}
	return strings.Join(ls, "\n")
}

var unsafeName = regexp.MustCompile(`[^A-Za-z0-9_.\-\[\]#@]+`)

func fileSafe(s string) string {
	s = unsafeName.ReplaceAllString(s, "_")
	if len(s) > 150 {
		s = s[:150]
	}
	return s
}

type ObligResult struct {
	O      *Oblig
	Res    SolveResult
	OK     bool   // discharged
	Script string // path
	Known  *Finding
	Variant string // "", "outside-region", "inside-region"
	Replayed bool
}

// dischargeAll runs every obligation (in parallel) and returns the results in input order.
func dischargeAll(obs []*Oblig, outDir string, timeoutS int, seed int, crossCheck bool, workers int) []*ObligResult {
	os.MkdirAll(outDir, 0o755)
	results := make([]*ObligResult, len(obs))
	var wg sync.WaitGroup
	sem := make(chan struct{}, workers)
	for i, o := range obs {
		i, o := i, o
		wg.Add(1)
		sem <- struct{}{}
		go func() {
			defer wg.Done()
			defer func() { <-sem }()
			path := filepath.Join(outDir, fmt.Sprintf("%04d_%s.smt2", i, fileSafe(o.Name)))
			script := o.Script(true)
			os.WriteFile(path, []byte(script), 0o644)
			r := &ObligResult{O: o, Script: path}
			if len(script) > 4<<20 {
				r.Res = SolveResult{Status: "unknown", Output: "script larger than 4 MB: outside reach"}
			} else {
				tmo := timeoutS
				if o.Expect == "sat" && tmo > 4 && !crossCheck {
					tmo = 4 // satisfiability covers are informational unless refuted: do not spend the budget on them
				}
				r.Res = solve(path, tmo, seed, crossCheck && o.Expect == "unsat")
			}
			r.OK = r.Res.Status == o.Expect
			results[i] = r
		}()
	}
	wg.Wait()
	return results
}
