#!/bin/bash
# tools/confirm_seed.sh <property> <k>  — confirms a seeded change in its scratch worktree:
#   demo passes without the change, change compiles, demo fails with it, the touched packages' existing tests still pass.
export GOFLAGS=-mod=mod GOPROXY=off GOSUMDB=off GOTOOLCHAIN=local
P="$1"; K="$2"; W=/tmp/seed/$P; O=/tmp/seed/$P-out/change$K; R=$O/confirm.txt
cd "$W" || exit 2
git checkout -q -- . ; git clean -fdq
place=$(head -3 "$O/demo_test.go" | grep -o 'place at: *[^ ]*' | head -1 | sed 's/place at: *//')
[ -z "$place" ] && { echo "no place-at line" > "$R"; exit 2; }
pkg=./$(dirname "$place")/
pkgs=$(grep '^+++ b/' "$O/patch.diff" | sed 's|^+++ b/||' | xargs -n1 dirname | sort -u | sed 's|^|./|; s|$|/|' | tr '\n' ' ')
{
echo "property=$P change=$K demo=$place demo_pkg=$pkg touched_pkgs=$pkgs"
cp "$O/demo_test.go" "$W/$place"
echo "--- demo WITHOUT the change"; go test -vet=off -count=1 -timeout 20m -run 'Seed|seed|ZZ|Zz|zz' "$pkg" 2>&1 | tail -3; a=${PIPESTATUS[0]}
git apply "$O/patch.diff" || echo "PATCH DOES NOT APPLY"
echo "--- build WITH the change"; go build ./... 2>&1 | tail -3; b=${PIPESTATUS[0]}
echo "--- demo WITH the change"; go test -vet=off -count=1 -timeout 20m -run 'Seed|seed|ZZ|Zz|zz' "$pkg" 2>&1 | tail -6; c=${PIPESTATUS[0]}
rm -f "$W/$place"
echo "--- existing tests of the touched packages WITH the change"; go test -vet=off -count=1 -timeout 25m $pkgs 2>&1 | tail -4; d=${PIPESTATUS[0]}
echo "RESULT demo_without=$a build=$b demo_with=$c existing_tests=$d"
if [ $a -eq 0 ] && [ $b -eq 0 ] && [ $c -ne 0 ] && [ $d -eq 0 ]; then echo CONFIRMED; else echo NOT-CONFIRMED; fi
} > "$R" 2>&1
git checkout -q -- . ; git clean -fdq
tail -2 "$R"
