#!/bin/bash
# tools/finalize.sh — maintainer routine before a commit that is meant to be checked: every claimed check on the current tree,
# re-lock, regenerate MANIFEST.json and the DESIGN tables, validate MANIFEST/evidence against the schemas.
cd "$(dirname "$0")/.." || exit 2
rc=0
for P in $(cat claims/ENABLED); do
  out=$(./check $P quick 2>&1); e=$?
  echo "$P exit=$e $(echo "$out" | grep '^govc:' | sed 's/govc: property [A-Z0-9]* tier quick: //')"
  if [ $e -ne 0 ]; then rc=1; echo "$out" | grep 'NOT DISCHARGED\|VIOLATION\|ENGINE' | head -5 | cut -c1-220; fi
done
[ $rc -eq 0 ] || { echo "NOT GREEN"; exit 1; }
./check --lock $(cat claims/ENABLED) | tail -n 25
python3 tools/manifest.py
python3 tools/design_status.py
python3-vt - <<'PY'
import json, jsonschema, glob
ms=json.load(open('/root/.vp/MANIFEST.schema.json')); es=json.load(open('/root/.vp/EVIDENCE.schema.json'))
jsonschema.validate(json.load(open('/verif/MANIFEST.json')), ms)
for f in sorted(glob.glob('/verif/evidence/*.json')):
    jsonschema.validate(json.load(open(f)), es)
print("schemas ok")
PY
