#!/bin/bash
# tools/seedcheck.sh <property> <scratch worktree> <patch.diff>  — runs the property's check against a scratch worktree with the patch applied
# (contract files are copied from /repo into the scratch tree first; the scratch tree is restored afterwards).
set -u
P="$1"; W="$2"; PATCH="$3"
cd "$W" || exit 2
git checkout -q -- . ; git clean -fdq
(cd /repo && find . -name 'verif_contracts*.go' | while read f; do mkdir -p "$W/$(dirname $f)"; cp "$f" "$W/$f"; done)
git apply "$PATCH" || { echo "PATCH DOES NOT APPLY"; exit 2; }
cd /verif && ./bin/govc check -prop "$P" -repo "$W" -verif /verif -scratch "seed-$P" 2>&1 | grep -v "^KNOWN-FINDING" | cut -c1-260
rc=${PIPESTATUS[0]}
cd "$W" && git checkout -q -- . && git clean -fdq
exit $rc
