#!/bin/bash
# tools/seed_store.sh CNN K [CHECKPROP...] — after tools/confirm_seed.sh CONFIRMED seeded change K of property CNN, run the
# check(s) against it in the scratch worktree /tmp/seed/CNN and store it as /verif/seeded/CNN-K/ (patch.diff, demo_test.go,
# README.md, meta.json). CHECKPROP defaults to CNN; further ids record which OTHER property checks also catch it.
set -u
HERE=$(cd "$(dirname "$0")/.." && pwd)
P=$1; K=$2; shift 2
CHECKS=${*:-$P}
SRC=/tmp/seed/$P-out/change$K; [ -d "$SRC" ] || SRC=/tmp/seed/old/$P-out/change$K
DST=$HERE/seeded/$P-$K
grep -q '^CONFIRMED' "$SRC/confirm.txt" || { echo "$P-$K not confirmed"; exit 2; }
mkdir -p "$DST"
cp "$SRC/patch.diff" "$SRC/demo_test.go" "$SRC/README.md" "$DST/"
cp "$SRC/confirm.txt" "$DST/confirm.txt"
: > "$DST/check_output.txt"
for C in $CHECKS; do
  echo "## ./check $C against the change" >> "$DST/check_output.txt"
  "$HERE/tools/seedcheck.sh" "$C" /tmp/seed/$P "$SRC/patch.diff" 2>&1 | grep -E 'VIOLATION|KNOWN-FINDING|^govc:|NOT DISCHARGED' | sed "s#/verif/out/_selftest/##" | cut -c1-400 >> "$DST/check_output.txt"
done
python3 - "$P" "$K" "$DST" "$CHECKS" <<'PY'
import json, re, sys
p, k, dst, checks = sys.argv[1], sys.argv[2], sys.argv[3], sys.argv[4].split()
needs = json.load(open('/tmp/seed/needs.json'))[f"{p}-{k}"]
out = open(dst + "/check_output.txt").read()
caught = {}
cur = None
for line in out.splitlines():
    m = re.match(r"## ./check (\S+)", line)
    if m: cur = m.group(1); continue
    m = re.search(r"VIOLATION property=(\S+) .*obligation=(\S+)", line)
    if m: caught.setdefault(m.group(1), []).append(m.group(2))
meta = {"property": p, "change": needs[0], "needs": needs[1],
        "ran": "tools/confirm_seed.sh (scratch worktree of /repo without the contract files): demo passes without the change, go build ./... ok, demo fails with the change, existing tests of the touched packages pass with the change (confirm.txt); then tools/seedcheck.sh for " + ", ".join(checks) + " (check_output.txt)",
        "caught": p in caught}
if p in caught:
    meta["caught_by"] = "; ".join(caught[p][:4])
else:
    meta["why_missed"] = "TODO"
others = {c: v[:3] for c, v in caught.items() if c != p}
if others: meta["also_caught_by_other_checks"] = others
old = {}
try: old = json.load(open(dst + "/meta.json"))
except Exception: pass
if not meta["caught"] and old.get("why_missed") and old["why_missed"] != "TODO": meta["why_missed"] = old["why_missed"]
json.dump(meta, open(dst + "/meta.json", "w"), indent=1)
print(p, k, "caught" if meta["caught"] else "MISSED", meta.get("caught_by", ""), others)
PY
