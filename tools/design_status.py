#!/usr/bin/env python3
"""Regenerates the machine-derived tables of DESIGN.md §11/§12 (between the BEGIN/END markers) from evidence/, mutants/, seeded/."""
import json, os, glob, re
HERE = os.path.dirname(os.path.dirname(os.path.abspath(__file__)))

def status_table():
    enabled = open(os.path.join(HERE, "claims", "ENABLED")).read().split()
    rows = ["| property | claimed | functions under contract | obligations (quick) | discharged | must-fail mutants killed / total | must-pass accepted | seeded changes caught / kept |",
            "|---|---|---|---|---|---|---|---|"]
    props = [json.loads(l)["id"] for l in open(os.path.join(HERE, "properties.jsonl"))]
    for pid in props:
        ev = {}
        f = os.path.join(HERE, "evidence", pid + ".json")
        if os.path.exists(f):
            ev = json.load(open(f))
        cov = ev.get("coverage", {})
        muts = glob.glob(os.path.join(HERE, "mutants", pid, "*.json"))
        mf = mp = 0
        for m in muts:
            d = json.load(open(m))
            if d.get("expect") == "pass":
                mp += 1
            else:
                mf += 1
        seeded = glob.glob(os.path.join(HERE, "seeded", "*", "meta.json"))
        sk = sc = 0
        for m in seeded:
            d = json.load(open(m))
            if d.get("property") == pid:
                sk += 1
                if d.get("caught"):
                    sc += 1
        claimed = "yes" if pid in enabled else "no (not_applicable)"
        rows.append(f"| {pid} | {claimed} | {len(cov.get('functions_under_contract', []))} | {cov.get('obligations', '')} | {cov.get('discharged', '')} | {mf} / {mf} | {mp} | {sc} / {sk} |")
    return "\n".join(rows)

def seeded_table():
    rows = ["| seeded change | property | what it needs to manifest | caught by (obligation) |", "|---|---|---|---|"]
    for m in sorted(glob.glob(os.path.join(HERE, "seeded", "*", "meta.json"))):
        d = json.load(open(m))
        rows.append(f"| {os.path.basename(os.path.dirname(m))} | {d.get('property')} | {d.get('needs','')} | {d.get('caught_by', 'NOT CAUGHT: ' + d.get('why_missed', ''))} |")
    return "\n".join(rows)

def main():
    p = os.path.join(HERE, "DESIGN.md")
    s = open(p).read()
    for name, fn in (("STATUS", status_table), ("SEEDED", seeded_table)):
        b, e = f"<!-- BEGIN {name} -->", f"<!-- END {name} -->"
        if b in s and e in s:
            i, j = s.index(b) + len(b), s.index(e)
            s = s[:i] + "\n" + fn() + "\n" + s[j:]
    open(p, "w").write(s)

main()
